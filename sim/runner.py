"""Batch runner: seeded search, parallel workers, minimisation, replay, evidence."""
from __future__ import annotations

import contextlib
import faulthandler
import hashlib
import importlib
import io
import json
import logging
import multiprocessing
import os
import random
import sys
import time
import traceback
from concurrent.futures import ProcessPoolExecutor, as_completed
from typing import Any, Dict, List, Optional

VERIF = os.path.dirname(os.path.dirname(os.path.abspath(__file__)))
EVIDENCE_DIR = os.path.join(VERIF, "evidence")
REPLAY_DIR = os.environ.get("VERIF_REPLAY_DIR") or os.path.join(VERIF, "replays")
FINDINGS_FILE = os.path.join(VERIF, "known_findings.json")

BLOCK = 100  # seeds per work item: results do not depend on the worker count

COMPONENTS_REAL = [
    "chuk_mcp (every line under test, from /repo/src working tree)",
    "anyio memory streams / task groups / cancel scopes / fail_after",
    "asyncio tasks, futures, Event, Lock, Semaphore, wait_for",
    "httpx client layer (request building, headers, redirects, Response, text decoding)",
    "pydantic v2, orjson",
]
COMPONENTS_STUB = [
    "event-loop selector and clock (SimLoop: virtual time, FIFO ready queue)",
    "OS process / pipes / signals (FakeProcess at anyio.open_process)",
    "TCP/HTTP wire (SimHTTPTransport at httpx.AsyncClient(transport=...))",
    "wall clock of the session store, uuid4, os.system, anyio.run (re-hosted)",
]


def seed_for(base: int, prop: str, i: int) -> int:
    h = hashlib.sha256(f"{base}/{prop}/{i}".encode()).digest()
    return int.from_bytes(h[:8], "big")


class _Null(io.TextIOBase):
    def write(self, s):
        return len(s)


@contextlib.contextmanager
def quiet():
    """SUT stdout/stderr is swallowed so it can neither forge nor hide a VIOLATION line."""
    o, e = sys.stdout, sys.stderr
    sys.stdout = sys.stderr = _Null()
    try:
        yield
    finally:
        sys.stdout, sys.stderr = o, e


def load_prop(pid: str):
    return importlib.import_module(f"props.{pid.lower()}")


def exec_scn(mod, scn) -> dict:
    """Execute one scenario; harness exceptions are classified, never a pass."""
    dbg = isinstance(scn, dict) and scn.get("_host_debug_logging")
    root = logging.getLogger()
    old_level, old_disable = root.level, root.manager.disable
    try:
        with quiet():
            if dbg:
                root.setLevel(logging.DEBUG)
                logging.disable(logging.NOTSET)
                if not any(isinstance(h, logging.NullHandler) for h in root.handlers):
                    root.addHandler(logging.NullHandler())
            try:
                out = mod.execute(scn)
            finally:
                if dbg:
                    root.setLevel(old_level)
                    logging.disable(old_disable)
        if dbg and isinstance(out, dict):
            out.setdefault("faults", {})["host_debug_logging"] = 1
    except BaseException as e:  # noqa
        if isinstance(e, (KeyboardInterrupt, SystemExit)):
            raise
        return {
            "violations": [], "digest": "", "isig": "", "nontrivial": False,
            "faults": {}, "probes": {}, "vtime": 0.0, "steps": 0, "history": None,
            "harness": [f"{type(e).__name__}: {e}\n{traceback.format_exc(limit=12)}"],
        }
    out.setdefault("harness", [])
    return out


# ----------------------------------------------------------------------------
# worker
# ----------------------------------------------------------------------------

def _init_worker():
    logging.disable(logging.CRITICAL)
    from sim import determinism

    determinism.install()


def _run_block(pid: str, tier: str, base: int, lo: int, hi: int, deadline: float,
               explicit: Optional[List[dict]] = None) -> dict:
    faulthandler.enable()
    _init_worker()
    mod = load_prop(pid)
    agg = {
        "n": 0, "nontrivial": 0, "isigs": set(), "faults": {}, "probes": {},
        "vtime": 0.0, "steps": 0, "viol": [], "harness": [], "samples": [],
        "skipped": 0,
    }
    per_sig: Dict[str, int] = {}
    items = explicit if explicit is not None else range(lo, hi)
    for k, it in enumerate(items):
        if time.time() > deadline:
            agg["skipped"] += (len(items) - k)
            break
        if explicit is not None:
            scn, seed, idx = it, None, lo + k
        else:
            seed = seed_for(base, pid, it)
            idx = it
            try:
                scn = mod.generate(random.Random(seed), tier)
                if isinstance(scn, dict) and seed % 8 == 3:
                    # an environment dimension shared by all checks (decided by the run's seed, recorded in the scenario so that
                    # replays keep it): the hosting application runs with DEBUG logging, so every log call formats its arguments
                    scn.setdefault("_host_debug_logging", True)
            except Exception as e:
                agg["harness"].append(f"generate(seed={seed}): {type(e).__name__}: {e}\n{traceback.format_exc(limit=8)}")
                continue
        out = exec_scn(mod, scn)
        agg["n"] += 1
        if out["harness"]:
            if len(agg["harness"]) < 5:
                agg["harness"].append(f"seed={seed} idx={idx}: " + out["harness"][0])
                agg.setdefault("harness_scn", []).append(scn)
            else:
                agg["harness"].append("...")
            continue
        if out["nontrivial"]:
            agg["nontrivial"] += 1
            agg["isigs"].add(out["isig"])
        for k2, v in out["faults"].items():
            agg["faults"][k2] = agg["faults"].get(k2, 0) + v
        for k2, v in out["probes"].items():
            agg["probes"][k2] = agg["probes"].get(k2, 0) + v
        agg["vtime"] += out["vtime"]
        agg["steps"] += out["steps"]
        for v in out["violations"]:
            c = per_sig.get(v["sig"], 0)
            per_sig[v["sig"]] = c + 1
            if c < 2:
                agg["viol"].append({"seed": seed, "index": idx, "scenario": scn, "violation": v})
        if len(agg["samples"]) < 1 and out["nontrivial"] and not out["violations"]:
            try:
                small_enough = len(json.dumps(scn, default=repr)) + len(json.dumps(out["history"], default=repr)) < 12000
            except Exception:
                small_enough = False
            if small_enough:  # keep evidence files readable: huge scenarios (bursts, >64 KiB frames) are not used as samples
                agg["samples"].append({"seed": seed, "scenario": scn, "history": out["history"]})
    agg["per_sig"] = per_sig
    agg["isigs"] = list(agg["isigs"])
    return agg


# ----------------------------------------------------------------------------
# known findings
# ----------------------------------------------------------------------------

def load_findings() -> dict:
    try:
        with open(FINDINGS_FILE) as f:
            return json.load(f)
    except FileNotFoundError:
        return {"findings": [], "fixed": []}


def match_finding(findings: dict, pid: str, sig: str) -> Optional[dict]:
    for f in findings.get("findings", []):
        if f.get("property") == pid and sig in f.get("signatures", []):
            return f
    return None


# ----------------------------------------------------------------------------
# minimisation
# ----------------------------------------------------------------------------

def _has_sig(mod, scn, sig) -> bool:
    out = exec_scn(mod, scn)
    if out["harness"]:
        return False
    return any(v["sig"] == sig for v in out["violations"])


def shrink(mod, scn: dict, sig: str, budget: int = 400) -> dict:
    """ddmin over the scenario's list fields, then module-specific simplifications."""
    import copy

    used = [0]

    def test(c) -> bool:
        if used[0] >= budget:
            return False
        used[0] += 1
        try:
            return _has_sig(mod, c, sig)
        except Exception:
            return False

    cur = copy.deepcopy(scn)
    lists = getattr(mod, "SHRINK_LISTS", ["events"])

    def ddmin(field):
        nonlocal cur
        items = cur.get(field)
        if not isinstance(items, list) or len(items) == 0:
            return
        n = 2
        while len(items) >= 1 and used[0] < budget:
            chunk = max(1, len(items) // n)
            reduced = False
            for start in range(0, len(items), chunk):
                cand_items = items[:start] + items[start + chunk:]
                cand = dict(cur)
                cand[field] = cand_items
                if test(cand):
                    items = cand_items
                    cur = cand
                    n = max(n - 1, 2)
                    reduced = True
                    break
            if not reduced:
                if chunk == 1:
                    break
                n = min(len(items), n * 2)
            if len(items) == 0:
                break

    changed = True
    rounds = 0
    while changed and used[0] < budget and rounds < 4:
        rounds += 1
        before = json.dumps(cur, sort_keys=True)
        for f in lists:
            ddmin(f)
        simp = getattr(mod, "simplify", None)
        if simp is not None:
            progress = True
            while progress and used[0] < budget:
                progress = False
                for cand in simp(copy.deepcopy(cur)):
                    if json.dumps(cand, sort_keys=True) == json.dumps(cur, sort_keys=True):
                        continue
                    if test(cand):
                        cur = cand
                        progress = True
                        break
        changed = json.dumps(cur, sort_keys=True) != before
    return cur


# ----------------------------------------------------------------------------
# main entry points
# ----------------------------------------------------------------------------

def tier_params(mod, tier: str) -> dict:
    p = {"quick": {"runs": 3000, "wall": 40.0}, "thorough": {"runs": 200000, "wall": 540.0}}[tier]
    p = dict(p)
    p.update(getattr(mod, "TIERS", {}).get(tier, {}))
    if os.environ.get("VERIF_RUNS"):
        p["runs"] = int(os.environ["VERIF_RUNS"])
    if os.environ.get("VERIF_WALL"):
        p["wall"] = float(os.environ["VERIF_WALL"])
    return p


def run_check(pid: str, tier: str, base_seed: int, jobs: int) -> int:
    t0 = time.time()
    mod = load_prop(pid)
    params = tier_params(mod, tier)
    runs, wall = params["runs"], params["wall"]
    deadline = t0 + wall
    print(f"VERIF_SEED={base_seed} property={pid} tier={tier} runs={runs} jobs={jobs}", flush=True)
    _init_worker()

    total = {
        "n": 0, "nontrivial": 0, "isigs": set(), "faults": {}, "probes": {}, "vtime": 0.0,
        "steps": 0, "viol": [], "harness": [], "samples": [], "skipped": 0, "per_sig": {},
        "harness_scn": [],
    }

    def merge(a):
        for k in ("n", "nontrivial", "vtime", "steps", "skipped"):
            total[k] += a[k]
        total["isigs"].update(a["isigs"])
        for k, v in a["faults"].items():
            total["faults"][k] = total["faults"].get(k, 0) + v
        for k, v in a["probes"].items():
            total["probes"][k] = total["probes"].get(k, 0) + v
        for k, v in a["per_sig"].items():
            total["per_sig"][k] = total["per_sig"].get(k, 0) + v
        total["viol"].extend(a["viol"])
        total["harness"].extend(a["harness"])
        total["harness_scn"].extend(a.get("harness_scn", []))
        if len(total["samples"]) < 3:
            total["samples"].extend(a["samples"][: 3 - len(total["samples"])])

    work = []
    systematic = getattr(mod, "systematic", None)
    n_sys = 0
    if systematic is not None:
        scns = list(systematic(tier))
        n_sys = len(scns)
        for s in range(0, len(scns), BLOCK):
            work.append(("sys", s, scns[s:s + BLOCK]))
    for lo in range(0, runs, BLOCK):
        work.append(("seed", lo, min(lo + BLOCK, runs)))

    dead_worker = False
    if jobs <= 1:
        for w in work:
            if w[0] == "sys":
                merge(_run_block(pid, tier, base_seed, w[1], 0, deadline, w[2]))
            else:
                merge(_run_block(pid, tier, base_seed, w[1], w[2], deadline))
    else:
        ctx = multiprocessing.get_context("fork")
        with ProcessPoolExecutor(max_workers=jobs, mp_context=ctx) as ex:
            futs = []
            for w in work:
                if w[0] == "sys":
                    futs.append(ex.submit(_run_block, pid, tier, base_seed, w[1], 0, deadline, w[2]))
                else:
                    futs.append(ex.submit(_run_block, pid, tier, base_seed, w[1], w[2], deadline))
            try:
                for f in as_completed(futs, timeout=wall + 120):
                    merge(f.result())
            except Exception as e:  # dead worker / timeout: harness error
                dead_worker = True
                total["harness"].append(f"worker failure: {type(e).__name__}: {e}")
                for f in futs:
                    f.cancel()

    # ---- violations: dedupe by signature, minimise, write replay files ----------
    findings = load_findings()
    by_sig: Dict[str, dict] = {}
    for v in sorted(total["viol"], key=lambda r: (r["violation"]["sig"], r["index"])):
        by_sig.setdefault(v["violation"]["sig"], v)
    exit_code = 0
    lines = []
    known_hit = []
    os.makedirs(REPLAY_DIR, exist_ok=True)
    shrink_deadline = time.time() + (60 if tier == "quick" else 240)
    for sig, rec in sorted(by_sig.items()):
        kf = match_finding(findings, pid, sig)
        if kf is not None:
            known_hit.append({"id": kf.get("id"), "signature": sig, "count": total["per_sig"].get(sig, 0)})
            if not any(l.startswith(f"KNOWN-FINDING: property={pid} {kf.get('id')}:") for l in lines):
                lines.append(f"KNOWN-FINDING: property={pid} {kf.get('id')}: {kf.get('what')}")
            lines.append(f"  [known {kf.get('id')}] sig={sig} hit {total['per_sig'].get(sig, 0)}x")
            if os.environ.get("VERIF_KEEP_KNOWN"):
                # materialise a minimised replay of the recorded finding under /verif/findings (manual, never in a registered check)
                small = shrink(mod, rec["scenario"], sig)
                o2 = exec_scn(mod, small)
                os.makedirs(os.path.join(VERIF, "findings"), exist_ok=True)
                with open(os.path.join(VERIF, "findings", f"{kf.get('id')}.json"), "w") as f:
                    json.dump({"property": pid, "finding": kf.get("id"), "violation": next(x for x in o2["violations"] if x["sig"] == sig),
                               "digest": o2["digest"], "scenario": small, "history": o2["history"]}, f, indent=1, sort_keys=True, default=repr)
            continue
        scn = rec["scenario"]
        if time.time() < shrink_deadline:
            try:
                small = shrink(mod, scn, sig)
            except Exception as e:
                small = scn
                total["harness"].append(f"shrink failed: {e}")
        else:
            small = scn
        out = exec_scn(mod, small)
        viol = next((x for x in out["violations"] if x["sig"] == sig), rec["violation"])
        h = hashlib.sha256((sig + json.dumps(small, sort_keys=True)).encode()).hexdigest()[:10]
        path = os.path.join(REPLAY_DIR, f"{pid}-{rec['seed']}-{h}.json")
        with open(path, "w") as f:
            json.dump({
                "property": pid, "verif_seed": base_seed, "run_seed": rec["seed"], "index": rec["index"],
                "tier": tier, "violation": viol, "digest": out["digest"],
                "scenario": small, "history": out["history"], "original_scenario": scn,
            }, f, indent=1, sort_keys=True, default=repr)
        lines.append(f"VIOLATION property={pid} replay={path}")
        lines.append(f"  class={viol['cls']} sig={sig} count={total['per_sig'].get(sig, 0)}: {viol['msg']}")
        exit_code = 1

    if total["harness"] or dead_worker:
        for hmsg in total["harness"][:5]:
            print("HARNESS-ERROR:", hmsg, flush=True)
        if total["harness_scn"]:
            p = os.path.join(REPLAY_DIR, f"{pid}-harness-error.json")
            with open(p, "w") as f:
                json.dump({"property": pid, "scenario": total["harness_scn"][0], "error": total["harness"][0]}, f, indent=1, default=repr)
            print(f"HARNESS-ERROR scenario written to {p}")
        if exit_code == 0:
            exit_code = 2
    if total["n"] == 0 and exit_code == 0:
        print("HARNESS-ERROR: nothing was executed")
        exit_code = 2

    wall_s = time.time() - t0
    write_evidence(mod, pid, tier, base_seed, total, n_sys, wall_s, known_hit, len([l for l in lines if l.startswith("VIOLATION")]), jobs, params)
    for l in lines:
        print(l, flush=True)
    want_probes = list(getattr(mod, "PROBES", [])) + (list(getattr(mod, "PROBES_THOROUGH", [])) if tier == "thorough" else [])
    zero_probes = [k for k in want_probes if not total["probes"].get(k)]
    if zero_probes:
        print(f"WARNING: probes never hit: {zero_probes}")
    print(f"{pid} {tier}: runs={total['n']} (systematic {n_sys}) nontrivial={total['nontrivial']} "
          f"distinct_interleavings={len(total['isigs'])} sim_seconds={total['vtime']:.0f} wall={wall_s:.1f}s "
          f"skipped={total['skipped']} exit={exit_code}", flush=True)
    return exit_code


def write_evidence(mod, pid, tier, seed, total, n_sys, wall_s, known_hit, n_viol, jobs, params):
    if os.environ.get("VERIF_NO_EVIDENCE"):
        return  # self-test sweeps must not overwrite the evidence of the registered run
    os.makedirs(EVIDENCE_DIR, exist_ok=True)
    level = getattr(mod, "LEVEL", "exploration")
    ev = {
        "property_id": pid,
        "tier": tier,
        "seed": seed,
        "level": level,
        "coverage": {
            "evaluations": total["n"],
            "distinct_nontrivial": len(total["isigs"]),
            "rule": getattr(mod, "RULE", "") + " | distinct = distinct interleaving signatures (hash of the ordered (actor, kind) "
                    "sequence of the simulator event log, times erased) among runs that are non-trivial by the property's rule.",
            "samples": total["samples"][:3],
            "systematic_cases": n_sys,
            "seeded_runs_requested": params["runs"],
            "runs_skipped_wall_budget": total["skipped"],
            "nontrivial_runs": total["nontrivial"],
            "runs_per_hour": int(total["n"] / wall_s * 3600) if wall_s > 0 else 0,
            "seeds": f"run i uses sha256(VERIF_SEED/{pid}/i)[:8], i in [0,{params['runs']})",
            "simulated_seconds": round(total["vtime"], 3),
            "loop_callbacks_executed": total["steps"],
            "fault_counts": dict(sorted(total["faults"].items())),
            "probes": dict(sorted(total["probes"].items())),
            "components_real": COMPONENTS_REAL + list(getattr(mod, "REAL", [])),
            "components_stub": COMPONENTS_STUB + list(getattr(mod, "STUB", [])),
            "known_findings_hit": known_hit,
            "workers": jobs,
            "exhaustive": False,
        },
        "assumptions": list(getattr(mod, "ASSUMPTIONS", [])) + [
            "asyncio ready queue is FIFO (never permuted); only environment timing, tie order, loop-iteration offset, chunking and cancellation points vary",
            "sampling, not proof: a clean batch is evidence only for the explored scenarios",
        ],
        "wall_s": round(wall_s, 3),
        "violations": n_viol,
    }
    tmp = os.path.join(EVIDENCE_DIR, f"{pid}.json.tmp")
    with open(tmp, "w") as f:
        json.dump(ev, f, indent=1, sort_keys=True, default=repr)
    os.replace(tmp, os.path.join(EVIDENCE_DIR, f"{pid}.json"))


def run_replay(pid: str, path: str) -> int:
    _init_worker()
    mod = load_prop(pid)
    with open(path) as f:
        rp = json.load(f)
    scn = rp["scenario"]
    want = rp.get("violation", {}).get("sig")
    out = exec_scn(mod, scn)
    if out["harness"]:
        print("HARNESS-ERROR:", out["harness"][0])
        return 2
    sigs = [v["sig"] for v in out["violations"]]
    print(f"replay property={pid} digest={out['digest']} recorded_digest={rp.get('digest')} violations={sigs}")
    if want is None:
        for v in out["violations"]:
            print(f"  {v['sig']}: {v['msg']}")
        return 1 if sigs else 0
    if want not in sigs:
        print(f"NOT-REPRODUCED property={pid} sig={want}")
        return 0
    if rp.get("digest") and out["digest"] != rp["digest"]:
        print(f"REPLAY-DIVERGED property={pid}: same violation but event-log digest differs")
        return 3
    v = next(x for x in out["violations"] if x["sig"] == want)
    kf = match_finding(load_findings(), pid, want)
    if kf is not None:
        print(f"KNOWN-FINDING: property={pid} {kf.get('id')}: {kf.get('what')} [sig={want}] (reproduced)")
        return 0
    print(f"VIOLATION property={pid} replay={path}")
    print(f"  class={v['cls']} sig={want}: {v['msg']}")
    return 1
