"""Remove address-dependent iteration order from the dependencies.

anyio's asyncio backend keeps ``CancelScope._tasks`` / ``_child_scopes`` in
plain ``set``s of objects hashed by ``id()``; cancellation is delivered in set
iteration order, i.e. in memory-address order, which differs from process to
process.  Real executions may see any order; the simulator fixes it to
insertion order so that one scenario is one execution.  (Dependency patch,
installed by the simulator only; nothing in /repo is touched.)
"""
from __future__ import annotations

_installed = False


class OrderedSet:
    __slots__ = ("_d",)

    def __init__(self):
        self._d = {}

    def add(self, x):
        self._d[x] = None

    def discard(self, x):
        self._d.pop(x, None)

    def remove(self, x):
        del self._d[x]

    def __iter__(self):
        return iter(list(self._d))

    def __len__(self):
        return len(self._d)

    def __bool__(self):
        return bool(self._d)

    def __contains__(self, x):
        return x in self._d


def install():
    global _installed
    if _installed:
        return
    from anyio._backends import _asyncio as be

    orig_init = be.CancelScope.__init__

    def __init__(self, deadline=float("inf"), shield=False):
        orig_init(self, deadline, shield)
        self._child_scopes = OrderedSet()
        self._tasks = OrderedSet()

    be.CancelScope.__init__ = __init__
    _installed = True
