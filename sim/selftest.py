"""Self-tests of the machinery: determinism (same seed -> same event-log digest across
processes, worker counts and PYTHONHASHSEED values) and no-alarm spread."""
from __future__ import annotations

import hashlib
import json
import multiprocessing
import os
import random
import subprocess
import sys
from concurrent.futures import ProcessPoolExecutor

from sim import runner

VERIF = runner.VERIF
ALL = ["C01", "C03", "C04", "C05", "C06", "C08", "C11", "C12", "C13", "C14", "C15", "C16", "C18", "C19", "C20"]


def _digest_block(pid, tier, base, lo, hi):
    runner._init_worker()
    mod = runner.load_prop(pid)
    out = []
    # perturb the allocator so that object addresses differ from run to run
    junk = [bytearray(random.SystemRandom().randrange(1, 4096)) for _ in range(random.SystemRandom().randrange(1, 200))]
    for i in range(lo, hi):
        seed = runner.seed_for(base, pid, i)
        scn = mod.generate(random.Random(seed), tier)
        o = runner.exec_scn(mod, scn)
        out.append([i, hashlib.sha256(json.dumps(scn, sort_keys=True).encode()).hexdigest()[:12], o["digest"],
                    sorted(v["sig"] for v in o["violations"]), bool(o["harness"])])
    del junk
    return out


def digests(pid, n, tier, jobs, base=0):
    if jobs <= 1:
        return _digest_block(pid, tier, base, 0, n)
    ctx = multiprocessing.get_context("fork")
    res = []
    step = max(1, n // (jobs * 2))
    with ProcessPoolExecutor(max_workers=jobs, mp_context=ctx) as ex:
        futs = [ex.submit(_digest_block, pid, tier, base, lo, min(n, lo + step)) for lo in range(0, n, step)]
        for f in futs:
            res.extend(f.result())
    return sorted(res)


def main(a) -> int:
    rest = a.rest
    if rest and rest[0] == "digests":
        pid, n, jobs = rest[1], int(rest[2]), int(rest[3])
        print(json.dumps(digests(pid, n, a.tier, jobs)))
        return 0
    if rest and rest[0] == "determinism":
        pids = rest[1:] or [p for p in ALL if os.path.exists(os.path.join(VERIF, "props", p.lower() + ".py"))]
        n = int(os.environ.get("VERIF_SELFTEST_N", "300"))
        bad = 0
        for pid in pids:
            runs = []
            for hs, jobs in (("0", 1), ("1", 4), ("12345", 16), ("0", 16)):
                env = dict(os.environ, VERIF_HASHSEED=hs)
                p = subprocess.run([os.path.join(VERIF, "check"), "selftest", "--tier", a.tier, "digests", pid, str(n), str(jobs)],
                                   env=env, capture_output=True, text=True, timeout=900)
                if p.returncode != 0:
                    print(f"selftest {pid}: subprocess failed: {p.stderr[-500:]}")
                    bad += 1
                    break
                runs.append(json.loads(p.stdout.strip().splitlines()[-1]))
            else:
                ref = runs[0]
                diverged = [(r[0]) for k in range(1, len(runs)) for r, q in zip(ref, runs[k]) if r != q]
                harness = sum(1 for r in ref if r[4])
                print(f"determinism {pid}: {len(ref)} seeds x {len(runs)} fresh interpreters "
                      f"(PYTHONHASHSEED 0/1/12345, workers 1/4/16): diverged={len(diverged)} harness_errors={harness}")
                if diverged:
                    print("  diverging run indices:", sorted(set(diverged))[:20])
                    bad += 1
                if harness:
                    bad += 1
        return 1 if bad else 0
    if rest and rest[0] == "noalarm":
        pids = rest[1:] or [p for p in ALL if os.path.exists(os.path.join(VERIF, "props", p.lower() + ".py"))]
        seeds = [int(x) for x in os.environ.get("VERIF_SELFTEST_SEEDS", "1,2,3,4,5,6,7,8,9,10,11,12").split(",")]
        bad = 0
        for pid in pids:
            rc = []
            for sd in seeds:
                env = dict(os.environ, VERIF_SEED=str(sd), VERIF_NO_EVIDENCE="1")
                p = subprocess.run([os.path.join(VERIF, "check"), pid, "--tier", a.tier], env=env, capture_output=True, text=True, timeout=3600)
                rc.append(p.returncode)
                if p.returncode != 0:
                    bad += 1
                    print(f"noalarm {pid} VERIF_SEED={sd}: exit {p.returncode}\n" + "\n".join(l[:300] for l in p.stdout.splitlines() if "VIOLATION" in l or "HARNESS" in l or "class=" in l))
            print(f"noalarm {pid}: seeds {seeds[0]}..{seeds[-1]} exits={rc}")
        return 1 if bad else 0
    print("usage: check selftest determinism [IDs...] | noalarm [IDs...] | digests ID N JOBS")
    return 2
