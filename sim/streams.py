"""Recording wrappers around anyio memory object streams + fake uuid4.

The wrappers only observe (who called what, when, with which event sequence
number); behaviour is that of the real anyio streams underneath.
"""
from __future__ import annotations

import asyncio
import contextlib
import uuid as _uuid
from typing import Any, Optional

import anyio


def dump(msg: Any) -> Any:
    """Normalise a message object (model / dict / list / str) to plain JSON data."""
    if isinstance(msg, list):
        return [dump(m) for m in msg]
    if hasattr(msg, "model_dump"):
        try:
            return msg.model_dump(exclude_none=True)
        except Exception as e:  # pragma: no cover
            return {"<undumpable>": repr(e)}
    return msg


def task_name() -> str:
    t = asyncio.current_task()
    return t.get_name() if t is not None else "-"


class RecSend:
    """Send-side wrapper: records every item at the moment send() is called."""

    def __init__(self, sim, inner, actor="client"):
        self._sim, self._inner, self._actor = sim, inner, actor
        self.items = []  # (eseq_call, t, task, item)

    async def send(self, item):
        # an item counts as written only once the real stream accepted it (send() may be
        # cancelled at its checkpoint, or block on a full buffer)
        self._sim.rec(self._actor, "write-call", None)
        await self._inner.send(item)
        e = self._sim.rec(self._actor, "write", None)
        self.items.append((e, self._sim.now(), task_name(), item))

    def send_nowait(self, item):
        self._inner.send_nowait(item)
        e = self._sim.rec(self._actor, "write", None)
        self.items.append((e, self._sim.now(), task_name(), item))

    async def aclose(self):
        await self._inner.aclose()

    def close(self):
        self._inner.close()

    def clone(self):
        return RecSend(self._sim, self._inner.clone(), self._actor)

    def statistics(self):
        return self._inner.statistics()

    async def __aenter__(self):
        return self

    async def __aexit__(self, *a):
        await self.aclose()


class RecRecv:
    """Receive-side wrapper: records which task consumed which item."""

    def __init__(self, sim, inner, actor="client"):
        self._sim, self._inner, self._actor = sim, inner, actor
        self.calls = []  # (eseq, t, task)
        self.got = []  # (eseq, t, task, item)

    async def receive(self):
        tn = task_name()
        e = self._sim.rec(tn, "recv-call", None)
        self.calls.append((e, self._sim.now(), tn))
        item = await self._inner.receive()
        e = self._sim.rec(tn, "recv-ret", None)
        self.got.append((e, self._sim.now(), tn, item))
        return item

    def receive_nowait(self):
        item = self._inner.receive_nowait()
        tn = task_name()
        e = self._sim.rec(tn, "recv-ret", None)
        self.got.append((e, self._sim.now(), tn, item))
        return item

    def __aiter__(self):
        return self

    async def __anext__(self):
        try:
            return await self.receive()
        except anyio.EndOfStream:
            raise StopAsyncIteration

    async def aclose(self):
        await self._inner.aclose()

    def close(self):
        self._inner.close()

    def clone(self):
        return RecRecv(self._sim, self._inner.clone(), self._actor)

    def statistics(self):
        return self._inner.statistics()


class FakeUUID:
    """Deterministic uuid4(): the n-th call returns UUID(int=seed-derived), version 4."""

    def __init__(self, seed: int):
        self.seed = seed & 0xFFFFFFFFFFFF
        self.n = 0

    def value(self, n: int) -> _uuid.UUID:
        return _uuid.UUID(int=((self.seed << 64) | (0xABCD << 32) | n), version=4)

    def __call__(self):
        v = self.value(self.n)
        self.n += 1
        return v


@contextlib.contextmanager
def patched(*triples):
    """patched((obj, 'attr', value), ...) restores on exit."""
    saved = []
    try:
        for obj, attr, val in triples:
            saved.append((obj, attr, getattr(obj, attr)))
            setattr(obj, attr, val)
        yield
    finally:
        for obj, attr, val in reversed(saved):
            setattr(obj, attr, val)


def build_inbound(mode: str, data):
    """Build an inbound object the way the transports do. Returns None if unbuildable."""
    from chuk_mcp.protocol.messages.json_rpc_message import JSONRPCMessage, parse_message

    try:
        if mode == "parse_message":  # stdio
            return parse_message(data)
        return JSONRPCMessage.model_validate(data)  # http / sse
    except Exception:
        return None
