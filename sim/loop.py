"""Virtual-time, single-threaded, fully deterministic asyncio event loop.

* ``time()`` is a virtual clock.  When nothing is runnable the clock jumps to
  the next timer (discrete-event time).
* The ready queue is FIFO and is never permuted (DESIGN.md section 2).
* Timers live on an own heap keyed ``(when, tie, seq)``: library timers get
  ``tie=1``; simulator events carry ``tie`` 0 (before library timers due at the
  same instant) or 2 (after them).
* No selector, no self-pipe, no threads, no real I/O, no real clock.
"""
from __future__ import annotations

import asyncio
import heapq
import hashlib
import json
from typing import Any, Callable, List, Optional

TICK = 1.0 / 1024.0  # scenario time grid: dyadic, so float sums are exact


def ticks(n: int) -> float:
    return n * TICK


class SimDeadlock(Exception):
    """Nothing runnable, no timer pending, main task not finished."""


class SimLimit(Exception):
    """Step or virtual-time cap exceeded (harness limit, never a pass)."""


class SimLoop(asyncio.BaseEventLoop):
    def __init__(self, max_steps: int = 200_000, max_vtime: float = 1.0e4):
        super().__init__()
        self._vnow = 0.0
        self._heap: list = []
        self._hseq = 0
        self._cur_tie = 1
        self.steps = 0
        self.max_steps = max_steps
        self.max_vtime = max_vtime
        self.iterations = 0
        self._clock_resolution = 0.0
        self._tcount = 0
        self.set_task_factory(self._task_factory_det)

    def _task_factory_det(self, loop, coro, context=None, **kw):
        # deterministic default task names (asyncio's Task-<n> counter is process-global)
        self._tcount += 1
        if context is None:
            return asyncio.Task(coro, loop=loop, name=f"t{self._tcount}")
        return asyncio.Task(coro, loop=loop, name=f"t{self._tcount}", context=context)

    # -- clock ------------------------------------------------------------
    def time(self) -> float:
        return self._vnow

    def burn(self, dt: float) -> None:
        """The step that is running right now takes `dt` of (virtual) time - a busy event loop.  Timers that fall due meanwhile fire
        on the next iteration, after whatever this step does."""
        if dt > 0:
            self._vnow += dt

    # -- timers -----------------------------------------------------------
    def call_at(self, when, callback, *args, context=None):
        if when is None:
            raise TypeError("when cannot be None")
        self._check_closed()
        h = asyncio.TimerHandle(when, callback, args, self, context)
        self._hseq += 1
        heapq.heappush(self._heap, (when, self._cur_tie, self._hseq, h))
        h._scheduled = True
        return h

    def sim_call_at(self, when: float, tie: int, callback, *args):
        """Schedule a simulator event (tie 0 = before, 2 = after library timers)."""
        old = self._cur_tie
        self._cur_tie = tie
        try:
            return self.call_at(when, callback, *args)
        finally:
            self._cur_tie = old

    def _timer_handle_cancelled(self, handle):
        pass  # lazy deletion in _run_once

    # -- no real I/O ------------------------------------------------------
    def _write_to_self(self):
        pass

    def _process_events(self, event_list):
        pass

    def call_soon_threadsafe(self, callback, *args, context=None):
        return self.call_soon(callback, *args, context=context)

    def run_in_executor(self, executor, func, *args):  # pragma: no cover
        raise RuntimeError("SimLoop: threads are not simulated (run_in_executor)")

    async def getaddrinfo(self, *a, **k):  # pragma: no cover
        raise RuntimeError("SimLoop: no real network")

    # -- the scheduler ----------------------------------------------------
    def _run_once(self):
        heap = self._heap
        ready = self._ready
        while heap and heap[0][3]._cancelled:
            heapq.heappop(heap)[3]._scheduled = False
        if not ready and not self._stopping:
            if not heap:
                raise SimDeadlock()
            when = heap[0][0]
            if when > self._vnow:
                if when > self.max_vtime:
                    raise SimLimit(f"virtual time cap {self.max_vtime}s exceeded")
                self._vnow = when
        now = self._vnow
        while heap and heap[0][0] <= now:
            h = heapq.heappop(heap)[3]
            h._scheduled = False
            if not h._cancelled:
                ready.append(h)
        self.iterations += 1
        ntodo = len(ready)
        for _ in range(ntodo):
            h = ready.popleft()
            if h._cancelled:
                continue
            self.steps += 1
            if self.steps > self.max_steps:
                raise SimLimit(f"step cap {self.max_steps} exceeded")
            h._run()
        h = None


class Sim:
    """What a scenario's execute() sees: the loop, the event log, at()."""

    def __init__(self, loop: SimLoop):
        self.loop = loop
        self.log: List[list] = []
        self.eseq = 0
        self.harness_errors: List[str] = []
        self.unhandled: List[str] = []
        self.faults: dict = {}
        self.probes: dict = {}

    def now(self) -> float:
        return self.loop._vnow

    def rec(self, actor: str, kind: str, detail: Any = None) -> int:
        self.eseq += 1
        self.log.append([self.eseq, self.loop._vnow, actor, kind, detail])
        return self.eseq

    def fault(self, kind: str, n: int = 1):
        self.faults[kind] = self.faults.get(kind, 0) + n

    def probe(self, kind: str, n: int = 1):
        self.probes[kind] = self.probes.get(kind, 0) + n

    def at(self, t: float, fn: Callable, *args, tie: int = 0, hops: int = 0):
        """Run fn(*args) at virtual time t (>= now), tie 0/2, after `hops` re-posts."""
        if t < self.loop._vnow:
            t = self.loop._vnow
        return self.loop.sim_call_at(t, 0 if tie == 0 else 2, self._fire, fn, args, hops)

    def soon(self, fn: Callable, *args, hops: int = 0):
        return self.loop.call_soon(self._fire, fn, args, hops)

    def _fire(self, fn, args, hops):
        if hops > 0:
            self.loop.call_soon(self._fire, fn, args, hops - 1)
            return
        try:
            fn(*args)
        except Exception as e:  # simulator component failed: harness error
            import traceback

            self.harness_errors.append(
                f"{type(e).__name__}: {e}\n{traceback.format_exc(limit=6)}"
            )

    def digest(self) -> str:
        return hashlib.sha256(
            json.dumps(self.log, sort_keys=True, default=repr).encode()
        ).hexdigest()[:16]

    def isig(self) -> str:
        """Interleaving signature: ordered (actor, kind) with times erased."""
        h = hashlib.blake2b(digest_size=8)
        for e in self.log:
            h.update(f"{e[2]}|{e[3]};".encode())
        return h.hexdigest()


class RunInfo:
    __slots__ = ("result", "exc", "deadlock", "limit", "leftover", "vtime", "steps", "sim")

    def __init__(self):
        self.result = None
        self.exc: Optional[BaseException] = None
        self.deadlock = False
        self.limit: Optional[str] = None
        self.leftover: List[str] = []
        self.vtime = 0.0
        self.steps = 0
        self.sim: Optional[Sim] = None


def run_sim(main: Callable[[Sim], Any], *, max_steps=200_000, max_vtime=1.0e4,
            drain: float = 0.0) -> RunInfo:
    """Run ``await main(sim)`` on a fresh SimLoop.  Never raises for SUT behaviour."""
    loop = SimLoop(max_steps=max_steps, max_vtime=max_vtime)
    sim = Sim(loop)
    info = RunInfo()
    info.sim = sim

    def exc_handler(lp, ctx):
        msg = ctx.get("message", "")
        exc = ctx.get("exception")
        sim.unhandled.append(f"{msg}: {type(exc).__name__ if exc else ''}: {exc}")

    loop.set_exception_handler(exc_handler)
    task = None
    try:
        task = loop.create_task(main(sim), name="main")
        try:
            loop.run_until_complete(task)
        except SimDeadlock:
            info.deadlock = True
        except SimLimit as e:
            info.limit = str(e)
        except BaseException as e:  # noqa: exception of main() itself
            info.exc = e
        else:
            info.result = task.result()
        info.vtime = loop._vnow
        info.steps = loop.steps
        # tasks still alive when main is over: oracle input (C12/C16)
        left = [t for t in asyncio.all_tasks(loop) if not t.done() and t is not task]
        info.leftover = sorted(
            (getattr(t.get_coro(), "__qualname__", "?") for t in left)
        )
    finally:
        _teardown(loop, task)
    return info


def _teardown(loop: SimLoop, task):
    loop.max_steps = loop.steps + 100_000
    loop.max_vtime = float("inf")
    try:
        for _ in range(5):
            pending = [t for t in asyncio.all_tasks(loop) if not t.done()]
            if not pending:
                break
            for t in pending:
                t.cancel()

            async def _w(p=pending):
                await asyncio.gather(*p, return_exceptions=True)

            try:
                loop.run_until_complete(loop.create_task(_w()))
            except (SimDeadlock, SimLimit):
                break
            except BaseException:
                pass
        try:
            loop.run_until_complete(loop.shutdown_asyncgens())
        except BaseException:
            pass
    finally:
        # drop whatever is left without running it
        loop._ready.clear()
        loop._heap.clear()
        try:
            loop.close()
        except BaseException:
            pass
