"""FakeProcess: the anyio.abc.Process surface the library uses, backed by a scripted child.

Semantics follow anyio's asyncio backend (anyio/_backends/_asyncio.py: StreamReaderWrapper,
StreamWriterWrapper, Process) and asyncio's subprocess transport:

* stdout.receive() returns the next piece the child wrote (never more than max_bytes) and raises
  EndOfStream once the child closed stdout / exited and everything was read;
* stdin.send() = checkpoint_if_cancelled, buffer the whole item, then drain(): blocks while more
  than `capacity` bytes are buffered, raises BrokenResourceError once the child's end is gone;
* terminate()/kill() on a reaped process raise ProcessLookupError; SIGKILL always kills;
* returncode / wait() observe the exit one loop iteration after it happened (child watcher).

Everything the child does is driven by simulator events; it draws nothing.
"""
from __future__ import annotations

import asyncio
from collections import deque
from typing import Callable, List, Optional

import anyio
import anyio.abc
from anyio import BrokenResourceError, ClosedResourceError, EndOfStream
from anyio.lowlevel import checkpoint, checkpoint_if_cancelled, cancel_shielded_checkpoint


class FakeStdout(anyio.abc.ByteReceiveStream):
    def __init__(self, child: "FakeChild"):
        self.c = child
        self._closed = False

    async def receive(self, max_bytes: int = 65536) -> bytes:
        c = self.c
        while True:
            if self._closed:
                raise ClosedResourceError
            if c.out_pieces:
                piece = c.out_pieces.popleft()
                if getattr(c, "coalesce_reads", False):
                    # like a real pipe: one read returns everything that is pending (up to max_bytes), however many writes produced it
                    while c.out_pieces:
                        piece += c.out_pieces.popleft()
                        c.sim.probe("read_coalesced_several_writes")
                if len(piece) > max_bytes:
                    c.out_pieces.appendleft(piece[max_bytes:])
                    piece = piece[:max_bytes]
                    c.sim.probe("read_capped_at_max_bytes")
                c.sim.rec("proc", "stdout-read", len(piece))
                burn = (c.cfg.get("read_burn_at") or {}).get(len(c.reads))
                if burn:
                    # the loop is busy for a moment between the data becoming readable and the reader getting on with it
                    c.sim.loop.burn(burn)
                    c.sim.fault("event_loop_busy_during_read")
                c.reads.append(piece)
                c._transport_poll_eof()
                return piece
            if c.out_eof:
                c.sim.rec("proc", "stdout-eof", None)
                c.stdout_released = True
                raise EndOfStream
            c._out_waiter = asyncio.get_running_loop().create_future()
            try:
                await c._out_waiter
            finally:
                c._out_waiter = None

    async def aclose(self) -> None:
        self._closed = True
        self.c.stdout_released = True
        if self.c._out_waiter is not None and not self.c._out_waiter.done():
            self.c._out_waiter.set_result(None)
        await checkpoint()


class FakeStdin(anyio.abc.ByteSendStream):
    def __init__(self, child: "FakeChild"):
        self.c = child
        self._closed = False

    async def send(self, item: bytes) -> None:
        c = self.c
        await checkpoint_if_cancelled()
        if self._closed:
            raise ClosedResourceError
        if c.stdin_broken:
            c.sim.rec("proc", "stdin-send-broken", len(item))
            raise BrokenResourceError
        # asyncio: write() buffers the whole item, drain() waits while above the high-water mark
        c.in_seq += 1
        c.in_buf.append((c.in_seq, bytes(item)))
        c.in_buffered += len(item)
        c.sim.rec("proc", "stdin-write", len(item))
        c._child_maybe_read()
        blocked = False
        while c.in_buffered > c.capacity and not c.stdin_broken:
            blocked = True
            c.sim.probe("stdin_send_blocked")
            w = asyncio.get_running_loop().create_future()
            c._in_waiters.append(w)  # several tasks may be blocked in drain() at once (writer task, reader's error reply)
            try:
                await w
            finally:
                if w in c._in_waiters:
                    c._in_waiters.remove(w)
        if c.stdin_broken and blocked:
            raise BrokenResourceError
        if not blocked:
            await cancel_shielded_checkpoint()

    async def aclose(self) -> None:
        if not self._closed:
            self._closed = True
            self.c.sim.rec("proc", "stdin-aclose", None)
            self.c._parent_closed_stdin()
        await checkpoint()


class FakeChild:
    """The scripted child + its pipes.  cfg keys (all optional):
    read_mode: 'eager' | 'never' | 'slow'   how the child consumes stdin
    read_every, read_bytes: for 'slow'
    capacity: stdin pipe high-water mark in bytes
    ignore_sigterm: bool; term_latency, kill_latency, eof_exit_latency: seconds
    exit_on_stdin_eof: bool
    responder: callable(line: bytes) -> list[(delay_s, list_of_pieces)]  (child logic per stdin line)
    """

    def __init__(self, sim, cfg: dict, argv=None, env=None, kwargs=None):
        self.sim = sim
        self.cfg = cfg
        self.argv, self.env, self.kwargs = argv, env, kwargs
        self.alive = True
        self.exit_code: Optional[int] = None
        self.reaped = False
        self.t_exit: Optional[float] = None
        self.signals: List[tuple] = []
        self.out_pieces: deque = deque()
        self.out_eof = False
        self.reads: List[bytes] = []
        self.in_buf: deque = deque()
        self.in_buffered = 0
        self.in_seq = 0
        self.capacity = cfg.get("capacity", 65536)
        self.received = bytearray()  # bytes the child actually read from stdin
        self.received_log: List[tuple] = []  # (eseq, t, nbytes)
        self.stdin_broken = False
        self.stdin_eof_seen = False
        self.parent_closed_stdin = False
        self.stdout_released = False
        self._out_waiter = None
        self._in_waiters = []
        self._exited = asyncio.Event()
        self._line_buf = bytearray()
        self._slow_timer = None
        self.read_paused = False
        self.lines_in: List[bytes] = []
        # stderr: cfg 'stderr_chatter' = bytes of diagnostics the child writes before it answers anything.  If the parent gave it a pipe
        # and nobody reads that pipe, the child blocks in write(2) once the pipe (64 KiB) is full and never gets to answer.
        # descriptor model of asyncio's subprocess transport.  The transport moves the child's output from the pipe into the
        # StreamReader on its own, but pauses once more than 2 x 64 KiB sit there unread; while paused it never sees the pipe's EOF,
        # so after the child died the read end stays open (nobody finishes the transport) unless the rest is read or the process
        # object is closed (anyio Process.aclose() closes the pipe transports).
        self.stdout_eof_seen_by_transport = False
        self.process_aclosed = False
        self.stderr_disposition = (kwargs or {}).get("_stderr_disposition", "inherited-or-file")
        self.stderr_read_by_parent = False
        self.stderr_merged = 0

    READER_HIGH_WATER = 2 * 65536

    def unread_output(self) -> int:
        return sum(len(p) for p in self.out_pieces)

    def _transport_poll_eof(self):
        """sticky: once the child is gone (or closed its stdout) and what is still unread fits below the reader's high-water mark,
        the transport reads on to EOF and disconnects the pipe"""
        if self.out_eof and not self.stdout_eof_seen_by_transport and self.unread_output() <= self.READER_HIGH_WATER:
            self.stdout_eof_seen_by_transport = True
            self.sim.rec("proc", "stdout-pipe-disconnected", None)

    @property
    def stdout_fd_open(self) -> bool:
        """is the parent's read end of the child's stdout still an open descriptor?"""
        return not (self.stdout_eof_seen_by_transport or self.process_aclosed)

    # ---- stdout side (child -> parent) -----------------------------------------------
    def write_stdout(self, pieces):
        if not self.alive or self.out_eof:
            return
        for p in pieces:
            if p:
                self.out_pieces.append(bytes(p))
        self._wake_out()

    def write_stderr(self, data: bytes):
        """diagnostics the child writes to its stderr: they end up wherever the parent pointed that descriptor"""
        if not self.alive:
            return
        if self.stderr_disposition == "stdout":
            self.sim.rec("child", "stderr-merged-into-stdout", len(data))
            self.write_stdout([data])
        else:
            self.sim.rec("child", "stderr-write", len(data))

    def close_stdout(self):
        self.out_eof = True
        self.sim.rec("child", "close-stdout", None)
        self._transport_poll_eof()
        self._wake_out()

    def _wake_in(self):
        for w in list(self._in_waiters):
            if not w.done():
                w.set_result(None)

    def _wake_out(self):
        w = self._out_waiter
        if w is not None and not w.done():
            w.set_result(None)

    # ---- stdin side (parent -> child) ------------------------------------------------
    def _child_maybe_read(self):
        mode = self.cfg.get("read_mode", "eager")
        if not self.alive or self.stdin_broken or self.read_paused:
            return
        if mode == "eager":
            self._child_read(None)
        elif mode == "slow" and self._slow_timer is None and self.in_buf:
            self._slow_timer = self.sim.at(self.sim.now() + self.cfg.get("read_every", 0.01), self._slow_tick, tie=2)

    def _slow_tick(self):
        self._slow_timer = None
        if not self.alive or self.stdin_broken:
            return
        self._child_read(self.cfg.get("read_bytes", 16))
        self._child_maybe_read()

    def pause_reading(self, flag: bool):
        self.read_paused = flag
        if not flag:
            self._child_maybe_read()

    def _child_read(self, nbytes):
        got = bytearray()
        while self.in_buf and (nbytes is None or len(got) < nbytes):
            seq, data = self.in_buf[0]
            if nbytes is not None and len(got) + len(data) > nbytes:
                take = nbytes - len(got)
                got += data[:take]
                self.in_buf[0] = (seq, data[take:])
            else:
                got += data
                self.in_buf.popleft()
        if got:
            self.in_buffered -= len(got)
            e = self.sim.rec("child", "stdin-read", len(got))
            self.received += got
            self.received_log.append((e, self.sim.now(), len(got)))
            self._line_buf += got
            while b"\n" in self._line_buf:
                i = self._line_buf.index(b"\n")
                line = bytes(self._line_buf[:i])
                del self._line_buf[: i + 1]
                self.lines_in.append(line)
                self._on_line(line)
        if self.in_buffered <= self.capacity // 4:
            self._wake_in()
        if not self.in_buf and self.parent_closed_stdin and not self.stdin_eof_seen:
            self._see_stdin_eof()

    def blocked_on_stderr(self) -> bool:
        return (self.cfg.get("stderr_chatter", 0) > 65536 and self.stderr_disposition == "pipe" and not self.stderr_read_by_parent)

    def _on_line(self, line: bytes):
        r: Optional[Callable] = self.cfg.get("responder")
        if r is None:
            return
        if self.cfg.get("stderr_chatter"):
            if self.blocked_on_stderr():
                self.sim.rec("child", "blocked-writing-stderr", None)
                self.sim.probe("child_blocked_on_unread_stderr_pipe")
                return
            if self.stderr_disposition == "stdout" and not self.stderr_merged:
                # diagnostics merged into the protocol stream
                self.stderr_merged = 1
                self.write_stdout([b"diagnostic noise on stderr\n" * 4])
        for delay, pieces in r(line) or []:
            if delay <= 0:
                self.write_stdout(pieces)
            else:
                self.sim.at(self.sim.now() + delay, self.write_stdout, pieces, tie=0)

    def _parent_closed_stdin(self):
        self.parent_closed_stdin = True
        if (self.cfg.get("read_mode", "eager") != "never" and not self.in_buf and not self.stdin_eof_seen
                and self.alive and not self.read_paused):
            self._see_stdin_eof()

    def _see_stdin_eof(self):
        self.stdin_eof_seen = True
        self.sim.rec("child", "stdin-eof", None)
        if self.cfg.get("exit_on_stdin_eof", True) and self.alive:
            self.sim.at(self.sim.now() + self.cfg.get("eof_exit_latency", 0.0), self.exit, 0, tie=2)

    def close_stdin_child_side(self):
        """The child closes its stdin: further parent writes break."""
        self.stdin_broken = True
        self.sim.rec("child", "close-stdin", None)
        self._wake_in()

    # ---- life cycle -------------------------------------------------------------------
    def signal(self, name: str):
        self.signals.append((self.sim.rec("proc", "signal:" + name, None), self.sim.now(), name))
        if not self.alive:
            return
        if name == "SIGKILL":
            self.sim.at(self.sim.now() + self.cfg.get("kill_latency", 0.0), self.exit, -9, tie=2)
        elif name == "SIGTERM":
            if self.cfg.get("ignore_sigterm"):
                self.sim.fault("sigterm_ignored")
                return
            self.sim.at(self.sim.now() + self.cfg.get("term_latency", 0.0), self.exit, -15, tie=2)

    def exit(self, code: int = 0):
        if not self.alive:
            return
        self.alive = False
        self.exit_code = code
        self.t_exit = self.sim.now()
        self.sim.rec("child", "exit", code)
        self.out_eof = True
        self.stdin_broken = True
        self._transport_poll_eof()
        self._wake_out()
        self._wake_in()
        # the child watcher notices one loop iteration later
        self.sim.loop.call_soon(self._reap)

    def _reap(self):
        self.reaped = True
        self.sim.rec("proc", "reaped", self.exit_code)
        self._exited.set()


class FakeProcess:
    _next_pid = 4000

    def __init__(self, child: FakeChild, pid: int):
        self.child = child
        self._pid = pid
        self._stdin = FakeStdin(child)
        self._stdout = FakeStdout(child)

    @property
    def pid(self):
        return self._pid

    @property
    def returncode(self):
        return self.child.exit_code if self.child.reaped else None

    @property
    def stdin(self):
        return self._stdin

    @property
    def stdout(self):
        return self._stdout

    @property
    def stderr(self):
        if self.child.stderr_disposition != "pipe":
            return None
        child = self.child

        class _Err(anyio.abc.ByteReceiveStream):
            async def receive(self, max_bytes: int = 65536) -> bytes:
                child.stderr_read_by_parent = True
                await anyio.sleep_forever()
                return b""

            async def aclose(self) -> None:
                await checkpoint()
        return _Err()

    async def wait(self) -> int:
        await self.child._exited.wait()
        return self.child.exit_code

    def terminate(self) -> None:
        if self.child.reaped:
            raise ProcessLookupError()
        self.child.signal("SIGTERM")

    def kill(self) -> None:
        if self.child.reaped:
            raise ProcessLookupError()
        self.child.signal("SIGKILL")

    def send_signal(self, sig) -> None:
        if self.child.reaped:
            raise ProcessLookupError()
        self.child.signal(f"SIG{sig}")

    async def aclose(self) -> None:
        # anyio's Process.aclose(): close the three pipe transports (releases the descriptors; a child blocked on a full pipe gets
        # SIGPIPE), then wait for the child; if that wait is interrupted, close the transport (kills the child) and wait again
        with anyio.CancelScope(shield=True) as scope:
            await self._stdin.aclose()
            await self._stdout.aclose()
            self.child.process_aclosed = True
            self.child.sim.rec("proc", "process-aclose", None)
            if self.child.alive:
                self.child.out_eof = True  # further output goes nowhere
            scope.shield = False
            try:
                await self.wait()
            except BaseException:
                scope.shield = True
                if not self.child.reaped and self.child.alive:
                    self.child.signal("SIGKILL")
                await self.wait()
                raise

    async def __aenter__(self):
        return self

    async def __aexit__(self, *a):
        await self.aclose()


class ProcessFactory:
    """Replacement for anyio.open_process; records every spawn (argv, env, kwargs)."""

    def __init__(self, sim, make_cfg: Callable[[int, list, Optional[dict]], dict]):
        self.sim = sim
        self.make_cfg = make_cfg
        self.spawns: List[dict] = []
        self.children: List[FakeChild] = []

    async def __call__(self, command, *, stdin=-1, stdout=-1, stderr=-1, env=None, **kwargs):
        # defaults as anyio.open_process has them: all three are subprocess.PIPE (-1) unless the caller says otherwise
        await checkpoint()
        idx = len(self.spawns)
        argv = list(command) if isinstance(command, (list, tuple)) else command
        import subprocess as _sp
        disp = "pipe" if stderr == _sp.PIPE else ("devnull" if stderr == _sp.DEVNULL else ("stdout" if stderr == _sp.STDOUT else "inherited-or-file"))
        kwargs = dict(kwargs, _stderr_disposition=disp)
        rec = {"argv": argv, "env": dict(env) if env is not None else None, "kwargs": {k: repr(v) for k, v in kwargs.items()}, "stderr": disp,
               "t": self.sim.now(), "eseq": self.sim.rec("proc", "spawn", None)}
        self.spawns.append(rec)
        cfg = self.make_cfg(idx, argv, env)
        err = cfg.get("spawn_error")
        lat = cfg.get("spawn_latency", 0.0)
        if lat:
            await anyio.sleep(lat)
        if err:
            rec["error"] = err
            self.sim.fault("spawn_error")
            raise {"FileNotFoundError": FileNotFoundError, "PermissionError": PermissionError, "OSError": OSError}[err](
                2, f"No such file or directory: {argv[0] if isinstance(argv, list) else argv!r}")
        child = FakeChild(self.sim, cfg, argv, rec["env"], kwargs)
        self.children.append(child)
        rec["child"] = len(self.children) - 1
        on_start = cfg.get("on_start")
        if on_start:
            on_start(child)
        return FakeProcess(child, 4000 + idx)
