"""SimHTTPTransport: an httpx.AsyncBaseTransport answering from a scenario, in virtual time.

The real httpx client layer stays (request building, headers, redirects, Response, incremental
text decoding); only the wire (httpcore) is replaced.  httpx enforces its timeouts inside httpcore,
which is bypassed, so this transport raises the timeout exceptions itself at the instant the real
stack would (connect/read timeout taken from request.extensions['timeout']).

A behaviour is a dict:
  latency        seconds before the response headers (or the exception)
  exc            None | ConnectError | ConnectTimeout | ReadTimeout | RemoteProtocolError | ReadError | WriteError
  status, headers (dict or list of pairs)
  chunks         list of (gap_seconds, bytes)   body pieces with gaps
  body_exc       exception name raised after the last chunk (mid-body failure)
  stay_open      True: after the chunks the stream stays open (live event stream); pieces can be pushed later
"""
from __future__ import annotations

import asyncio
from collections import deque
from typing import Callable, List, Optional

import anyio
import httpx

EXC = {
    "ConnectError": httpx.ConnectError, "ConnectTimeout": httpx.ConnectTimeout, "ReadTimeout": httpx.ReadTimeout,
    "RemoteProtocolError": httpx.RemoteProtocolError, "ReadError": httpx.ReadError, "WriteError": httpx.WriteError,
    "PoolTimeout": httpx.PoolTimeout,
}


def _mk_exc(name, request):
    msgs = {"ConnectError": "All connection attempts failed", "ConnectTimeout": "", "ReadTimeout": "",
            "RemoteProtocolError": "Server disconnected without sending a response.", "ReadError": "", "WriteError": ""}
    return EXC[name](msgs.get(name, ""), request=request)


class SimStream(httpx.AsyncByteStream):
    """A response body: scheduled pieces + optionally a live tail fed by push()."""

    def __init__(self, sim, request, read_timeout, stay_open=False, body_exc=None, label=""):
        self.sim = sim
        self.request = request
        self.read_timeout = read_timeout
        self.q: deque = deque()
        self.ended = not stay_open
        self.pending_scheduled = 0
        self.body_exc = body_exc
        self.failed: Optional[str] = None
        self.closed = False
        self.label = label
        self._waiter = None
        self.delivered: List[bytes] = []

    # -- producer side (simulator events) ---------------------------------------------
    def push(self, data: bytes):
        if self.closed:
            return
        self.q.append(data)
        self._wake()

    def end(self):
        self.ended = True
        self._wake()

    def fail(self, exc_name: str):
        self.failed = exc_name
        self._wake()

    def _wake(self):
        w = self._waiter
        if w is not None and not w.done():
            w.set_result(None)

    # -- consumer side (httpx) -----------------------------------------------------------
    async def __aiter__(self):
        loop = asyncio.get_running_loop()
        while True:
            if self.q:
                piece = self.q.popleft()
                self.delivered.append(piece)
                self.sim.rec("http", "body-chunk:" + self.label, len(piece))
                yield piece
                continue
            if self.failed:
                self.sim.rec("http", "body-fail:" + self.label, self.failed)
                raise _mk_exc(self.failed, self.request)
            if self.ended and self.pending_scheduled == 0:
                if self.body_exc:
                    self.sim.rec("http", "body-fail:" + self.label, self.body_exc)
                    raise _mk_exc(self.body_exc, self.request)
                self.sim.rec("http", "body-end:" + self.label, None)
                return
            self._waiter = loop.create_future()
            try:
                if self.read_timeout is None:
                    await self._waiter
                else:
                    try:
                        await asyncio.wait_for(self._waiter, self.read_timeout)
                    except asyncio.TimeoutError:
                        self.sim.rec("http", "read-timeout:" + self.label, None)
                        self.sim.fault("http_read_timeout_idle_stream")
                        raise httpx.ReadTimeout("", request=self.request)
            finally:
                self._waiter = None

    async def aclose(self):
        if not self.closed:
            self.closed = True
            self.sim.rec("http", "stream-aclose:" + self.label, None)


class SimHTTPTransport(httpx.AsyncBaseTransport):
    def __init__(self, sim, server: Callable[[dict], dict]):
        self.sim = sim
        self.server = server
        self.requests: List[dict] = []
        self.streams: List[SimStream] = []
        self.closed_count = 0
        self.pre_delay = None

    async def handle_async_request(self, request: httpx.Request) -> httpx.Response:
        box = {}
        try:
            return await self._handle(request, box)
        finally:
            if "rec" in box:
                box["rec"]["returned"] = True   # headers delivered, an exception raised, or the awaiting task cancelled

    async def _handle(self, request: httpx.Request, box: dict) -> httpx.Response:
        sim = self.sim
        body = await request.aread() if hasattr(request, "aread") else request.content
        rec = {"i": len(self.requests), "method": request.method, "url": str(request.url), "headers": {k.lower(): v for k, v in request.headers.items()},
               "body": bytes(body), "t": sim.now(), "eseq": sim.rec("http", f"request:{request.method}", None)}
        self.requests.append(rec)
        box["rec"] = rec
        to = request.extensions.get("timeout", {}) or {}
        if self.pre_delay is not None:
            # transit time of the request: the server only sees (and orders) it after this delay
            d = self.pre_delay(rec)
            if d:
                await anyio.sleep(d)
        beh = self.server(rec)
        rec["behaviour"] = {k: v for k, v in beh.items() if k not in ("chunks", "on_stream")}
        exc = beh.get("exc")
        lat = beh.get("latency", 0.0)
        if exc in ("ConnectTimeout",):
            if to.get("connect") is None:
                await anyio.sleep_forever()   # no connect timeout configured: a connection attempt that never completes never fails either
            await anyio.sleep(to.get("connect"))
            sim.rec("http", "raise:" + exc, None)
            sim.fault("http_exc:" + exc)
            raise _mk_exc(exc, request)
        if exc == "ReadTimeout":
            if to.get("read") is None:
                sim.rec("http", "silent-server-and-no-read-timeout", None)
                await anyio.sleep_forever()   # the server took the request and stays silent; without a read timeout nothing ever ends the wait
            await anyio.sleep(to.get("read"))
            sim.rec("http", "raise:" + exc, None)
            sim.fault("http_exc:" + exc)
            raise _mk_exc(exc, request)
        rt = to.get("read")
        if rt is not None and lat >= rt:
            # the headers would arrive later than the read timeout allows
            await anyio.sleep(rt)
            sim.rec("http", "raise:ReadTimeout(latency)", None)
            sim.fault("http_exc:ReadTimeout")
            raise httpx.ReadTimeout("", request=request)
        if lat:
            await anyio.sleep(lat)
        if exc:
            sim.rec("http", "raise:" + exc, None)
            sim.fault("http_exc:" + exc)
            raise _mk_exc(exc, request)
        stream = SimStream(sim, request, rt, stay_open=beh.get("stay_open", False), body_exc=beh.get("body_exc"), label=str(rec["i"]))
        self.streams.append(stream)
        rec["stream"] = stream
        t = 0.0
        for gap, piece in beh.get("chunks", []):
            t += gap
            if t <= 0:
                stream.q.append(piece)
            else:
                stream.pending_scheduled += 1

                def later(p=piece):
                    stream.pending_scheduled -= 1
                    stream.push(p)
                sim.at(sim.now() + t, later, tie=0)
        if beh.get("body_exc"):
            sim.fault("http_body_exc:" + beh["body_exc"])
        hdrs = beh.get("headers", {})
        hl = list(hdrs.items()) if isinstance(hdrs, dict) else list(hdrs)
        sim.rec("http", f"response:{beh.get('status', 200)}", None)
        cb = beh.get("on_stream")
        if cb:
            cb(stream, rec)
        return httpx.Response(beh.get("status", 200), headers=hl, stream=stream, request=request)

    async def aclose(self):
        self.closed_count += 1
        self.sim.rec("http", "transport-aclose", None)


def make_client_class(transport_factory):
    """A subclass of the real httpx.AsyncClient that forces the simulated transport."""
    real = httpx.AsyncClient

    class SimAsyncClient(real):  # type: ignore[misc,valid-type]
        instances: List["SimAsyncClient"] = []

        def __init__(self, *args, **kwargs):
            kwargs["transport"] = transport_factory()
            kwargs.pop("mounts", None)
            kwargs["trust_env"] = False
            super().__init__(*args, **kwargs)
            SimAsyncClient.instances.append(self)

    SimAsyncClient.instances = []
    return SimAsyncClient
