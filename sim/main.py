from __future__ import annotations

import argparse
import os
import sys

sys.path.insert(0, os.path.dirname(os.path.dirname(os.path.abspath(__file__))))


def main(argv=None) -> int:
    ap = argparse.ArgumentParser()
    ap.add_argument("prop")
    ap.add_argument("--tier", default=os.environ.get("VERIF_TIER", "quick"), choices=["quick", "thorough"])
    ap.add_argument("--replay")
    ap.add_argument("--jobs", type=int, default=int(os.environ.get("VERIF_JOBS", "0")) or min(16, os.cpu_count() or 1))
    ap.add_argument("--runs", type=int)
    ap.add_argument("--wall", type=float)
    ap.add_argument("rest", nargs="*")
    a = ap.parse_intermixed_args(argv)
    if a.runs:
        os.environ["VERIF_RUNS"] = str(a.runs)
    if a.wall:
        os.environ["VERIF_WALL"] = str(a.wall)
    if a.prop == "selftest":
        from sim import selftest

        return selftest.main(a)
    from sim import runner

    pid = a.prop.upper()
    if a.replay:
        return runner.run_replay(pid, a.replay)
    seed = int(os.environ.get("VERIF_SEED", "0") or 0)
    return runner.run_check(pid, a.tier, seed, a.jobs)


if __name__ == "__main__":
    sys.exit(main())
