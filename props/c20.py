"""C20 - every host entry point launches exactly the server the configuration names.

SUT: config.load_config, __main__.test_server, mcp_client.host.server_manager.run_command
(its anyio.run re-hosted on a SimLoop, os.system stubbed) -> real stdio_client -> FakeProcess
factory as the witness (argv, env of each spawn; the fake child plays an MCP server).
"""
from __future__ import annotations

import copy
import importlib
import json
import os
import random
import shutil
import tempfile

import anyio

from sim.loop import run_sim, ticks
from sim.streams import patched
from sim.fakes.process import ProcessFactory

ID = "C20"
LEVEL = "exploration"
RULE = ("scenario = generated config file (1..4 servers; args with spaces/quotes/Unicode/empty strings; env absent/empty/values; timeout "
        "absent/int/float/numeric string; extra keys) or a malformed-config class, x entry point {load_config, test_server, run_command} x child "
        "faults (answer latency, chunked answers, junk lines before the answer, one server unstartable); non-trivial = an entry point that "
        "spawns was exercised with a non-default argument/env shape or a fault")
PROBES = ["cli_main_with_decoy_default_config", "repeat_load", "unknown_name_after_valid_one", "run_command_multi_server", "one_server_unstartable", "env_configured", "args_with_spaces_or_unicode", "malformed_config",
          "junk_before_answer", "timeout_numeric_string"]
TIERS = {"quick": {"runs": 8000, "wall": 45.0}, "thorough": {"runs": 300000, "wall": 560.0}}
ASSUMPTIONS = [
    "the witness is the spawn seam (anyio.open_process): argv/env are what the library passes to it, not what a kernel would exec",
    "an empty configured env ({}) is treated as absent (the sentence does not separate them); with no env configured only 'a dict is passed' is checked",
    "nothing here depends on a schedule: the simulator contributes hermetic execution of the entry points against a witness, with the file system and the child as fault dimensions",
]
STUB = ["child process: FakeProcess playing an MCP server", "anyio.run inside run_command re-hosted on a SimLoop; os.system stubbed",
        "config files: real files in a scratch directory outside /repo and /verif, removed after the run"]
SHRINK_LISTS = ["servers", "names"]

ARGS_POOL = ["--flag", "-m", "server.py", "with space", "quo\"te", "sing'le", "", "ünï", "日本語", "a=b", "--path=/tmp/x y", "$HOME", "*", "\\back",
             " leading", "trailing ", "tab\t", "--sep= ", " ", "nl\n"]
_scratch = None


def _scratch_dir():
    global _scratch
    if _scratch is None or not os.path.isdir(_scratch):
        _scratch = tempfile.mkdtemp(prefix="verif-c20-")
        import atexit
        atexit.register(shutil.rmtree, _scratch, True)
    return _scratch


def generate(rng: random.Random, tier: str) -> dict:
    n = rng.choice([1, 1, 2, 3, 4])
    servers = []
    for i in range(n):
        s = {"name": rng.choice([f"srv{i}", f"s-{i}", f"sqlite{i}", f"Ünï{i}"]), "command": rng.choice(["python", "/usr/bin/node", "uvx", "my cmd", "./run.sh"]),
             "args": [rng.choice(ARGS_POOL) for _ in range(rng.choice([0, 1, 2, 4]))]}
        if rng.random() < 0.15:
            del s["args"]
        r = rng.random()
        if r < 0.35:
            s["env"] = {rng.choice(["API_KEY", "PATH", "X_Y", "LOG_LEVEL"]): rng.choice(["v", "/bin", "ERROR", "ü", "", " padded ", "trail\n"]) for _ in range(rng.choice([1, 2, 3]))}
        elif r < 0.45:
            s["env"] = {}
        elif r < 0.5:
            s["env"] = None
        r = rng.random()
        if r < 0.5:
            s["timeout"] = rng.choice([30, 1.5, "45", "2.5", 0])
        if rng.random() < 0.2:
            s["extra"] = {"disabled": False, "note": "x"}
        s["fault"] = rng.choice([None, None, None, "slow_answer", "chunked", "junk_first", "unstartable", "chatty_stderr", "busy_at_poll_edge"])
        if rng.random() < 0.12:
            # a configured environment that asks for quiet logging
            s["env"] = dict(s.get("env") or {}, **{rng.choice(["LOG_LEVEL", "LOGGING_LEVEL"]): rng.choice(["ERROR", "error", "CRITICAL", "Critical"])})
        servers.append(s)
    # unique names
    seen = set()
    for i, s in enumerate(servers):
        if s["name"] in seen:
            s["name"] += f"_{i}"
        seen.add(s["name"])
    entry = rng.choice(["load_config", "test_server", "run_command", "run_command", "cli_main"])
    malformed = rng.choice([None] * 6 + ["missing_file", "invalid_json", "unknown_server", "no_mcpServers"])
    if entry == "run_command":
        k = rng.randrange(1, n + 1)
        names = [s["name"] for s in rng.sample(servers, k)]
    else:
        names = [rng.choice(servers)["name"]]
    return {"v": 1, "debug_logging": rng.random() < 0.2, "invalid_how": rng.choice(["commas", "truncated_at_line_boundary", "missing_final_brace", "open_brace_only", "blank_lines", "empty_file"]),
            "entry": entry, "servers": servers, "names": names, "malformed": malformed, "unknown_pos": rng.randrange(0, 5),
            "cmd_name": rng.choice(["cmd", "interactive_mode", "chat_run"]), "extra_top": rng.random() < 0.2}


def simplify(scn):
    if scn["malformed"]:
        c = copy.deepcopy(scn); c["malformed"] = None; yield c
    for i, s in enumerate(scn["servers"]):
        for key in ("env", "timeout", "extra"):
            if key in s:
                c = copy.deepcopy(scn); del c["servers"][i][key]; yield c
        if s.get("fault"):
            c = copy.deepcopy(scn); c["servers"][i]["fault"] = None; yield c
        if s.get("args"):
            c = copy.deepcopy(scn); c["servers"][i]["args"] = s["args"][:-1]; yield c
    if scn["cmd_name"] != "cmd":
        c = copy.deepcopy(scn); c["cmd_name"] = "cmd"; yield c


def _config_json(scn):
    servers = {}
    for s in scn["servers"]:
        d = {"command": s["command"]}
        for k in ("args", "env", "timeout"):
            if k in s:
                d[k] = s[k]
        if "extra" in s:
            d.update(s["extra"])
        servers[s["name"]] = d
    cfg = {"mcpServers": servers}
    if scn.get("extra_top"):
        cfg["other"] = {"x": 1}
    if scn["malformed"] == "no_mcpServers":
        cfg = {"servers": servers}
    return cfg


def execute(scn: dict) -> dict:
    # the inherited default environment is read from the host's environment at launch time: make it scenario-specific
    import hashlib
    env_mark = "term-" + hashlib.sha256(json.dumps(scn, sort_keys=True).encode()).hexdigest()[:6]
    saved_env = {k_: os.environ.get(k_) for k_ in ("TERM", "LOGNAME")}
    os.environ["TERM"] = env_mark
    os.environ["LOGNAME"] = "user-" + env_mark
    import logging as _logging
    root = _logging.getLogger()
    old_level = root.level
    old_disable = root.manager.disable
    if scn.get("debug_logging"):
        root.setLevel(_logging.DEBUG)   # the host application runs with debug logging (the CLI's --verbose does the same)
        _logging.disable(_logging.NOTSET)   # (the runner silences logging globally; what is emitted goes to the swallowed stderr anyway)
    try:
        return _execute(scn)
    finally:
        root.setLevel(old_level)
        _logging.disable(old_disable)
        for k_, v_ in saved_env.items():
            if v_ is None:
                os.environ.pop(k_, None)
            else:
                os.environ[k_] = v_


def _execute(scn: dict) -> dict:
    cfgmod = importlib.import_module("chuk_mcp.config")
    mainmod = importlib.import_module("chuk_mcp.__main__")
    smod = importlib.import_module("chuk_mcp.mcp_client.host.server_manager")
    from chuk_mcp.protocol.messages.ping.send_messages import send_ping

    by_name = {s["name"]: s for s in scn["servers"]}
    names = [n for n in scn["names"] if n in by_name]
    if not names:
        names = [scn["servers"][0]["name"]] if scn["servers"] else ["nothing"]
    if scn["malformed"] == "unknown_server":
        pos = scn.get("unknown_pos", 0) % (len(names) + 1) if scn["entry"] == "run_command" else 0
        names = (names[:pos] + ["does-not-exist"] + names[pos:]) if scn["entry"] == "run_command" else ["does-not-exist"]
    d = _scratch_dir()
    path = os.path.join(d, "cfg.json")
    if scn["malformed"] == "missing_file":
        path = os.path.join(d, "missing.json")
        if os.path.exists(path):
            os.unlink(path)
    else:
        with open(path, "w", encoding="utf-8") as f:
            txt = json.dumps(_config_json(scn), ensure_ascii=False)
            if scn["malformed"] == "invalid_json":
                how = scn.get("invalid_how", "commas")
                if how == "commas":
                    txt = txt[:-2] + ",,}"
                elif how == "truncated_at_line_boundary":
                    # a pretty-printed file cut at the end of a line (the decoder reports the error on the line after the last newline)
                    pretty = json.dumps(_config_json(scn), ensure_ascii=False, indent=2).split("\n")
                    txt = "\n".join(pretty[: max(1, len(pretty) // 2)]) + "\n"
                elif how == "missing_final_brace":
                    txt = json.dumps(_config_json(scn), ensure_ascii=False, indent=2)[:-1].rstrip() + "\n"
                elif how == "open_brace_only":
                    txt = "{\n"
                elif how == "blank_lines":
                    txt = "\n\n\n"
                else:
                    txt = ""
            f.write(txt)
    st = {"cmd_called": None, "os_system": [], "outcome": None, "sims": []}
    factory_box = {}

    def make_factory(sim):
        def responder_for(child_idx):
            def responder(line: bytes):
                try:
                    o = json.loads(line)
                except Exception:
                    return []
                if not (isinstance(o, dict) and "id" in o and "method" in o):
                    return []
                spec = factory_box["specs"].get(child_idx, {})
                if o["method"] == "initialize":
                    res = {"jsonrpc": "2.0", "id": o["id"], "result": {"protocolVersion": o["params"]["protocolVersion"],
                           "capabilities": {"tools": {}}, "serverInfo": {"name": "witness", "version": "1"}}}
                elif o["method"] == "tools/list":
                    res = {"jsonrpc": "2.0", "id": o["id"], "result": {"tools": []}}
                else:
                    res = {"jsonrpc": "2.0", "id": o["id"], "result": {}}
                data = json.dumps(res).encode() + b"\n"
                fault = spec.get("fault")
                pieces = [data]
                delay = ticks(2)
                if fault == "chunked":
                    pieces = [data[:7], data[7:20], data[20:]]
                if fault == "slow_answer":
                    delay = ticks(400)
                if fault == "busy_at_poll_edge" and o["method"] == "initialize":
                    delay = ticks(511)   # becomes readable one tick before the client's 0.5 s poll ends; the loop is busy for two ticks just then
                if fault == "junk_first":
                    pieces = [b"Starting server...\n", b"WARNING: something\n", data]
                return [(delay, pieces)]
            return responder

        def cfg(idx, argv, env):
            # which configured server is this spawn? (by argv match, for fault selection only)
            order = [n for n in names if n in by_name]  # the k-th spawn belongs to the k-th valid configured name
            spec = by_name[order[idx]] if idx < len(order) else {}
            child_idx = len(factory.children)
            factory_box["specs"][child_idx] = spec
            c = {"read_mode": "eager", "responder": responder_for(child_idx), "term_latency": ticks(1), "eof_exit_latency": ticks(1)}
            if spec.get("fault") == "unstartable":
                c["spawn_error"] = "FileNotFoundError"
            if spec.get("fault") == "busy_at_poll_edge":
                c["read_burn_at"] = {0: ticks(2)}
            if spec.get("fault") == "chatty_stderr":
                c["stderr_chatter"] = 200_000   # more diagnostics on stderr than a pipe holds, written before the first answer
                sim.fault("child_writes_over_64k_to_stderr")
            return c

        factory = ProcessFactory(sim, cfg)
        factory_box["factory"] = factory
        factory_box["specs"] = {}
        return factory

    def finish(info):
        st["sims"].append(info)

    entry = scn["entry"]
    all_spawns = []
    all_children = []

    if entry in ("load_config", "test_server"):
        async def main(sim):
            factory = make_factory(sim)
            with patched((anyio, "open_process", factory)):
                try:
                    if entry == "load_config":
                        first = await cfgmod.load_config(path, names[0])
                        # loading is idempotent: the same unchanged file gives the same answer every time (and for other names in between)
                        st["repeat"] = []
                        for other in [s_["name"] for s_ in scn["servers"]][:3] + [names[0], names[0]]:
                            try:
                                st["repeat"].append((other, await cfgmod.load_config(path, other)))
                            except Exception as e_:  # noqa
                                st["repeat"].append((other, e_))
                        st["outcome"] = ("return", first)
                    else:
                        st["outcome"] = ("return", await mainmod.test_server(path, names[0], verbose=False))
                except BaseException as e:  # noqa
                    st["outcome"] = ("raise", e)
                await anyio.sleep(3.0)
            all_spawns.extend(factory.spawns)
            all_children.extend(factory.children)

        info = run_sim(main, max_steps=300_000, max_vtime=2000.0)
    else:
        holder = {}

        def fake_anyio_run(func, *args, **kw):
            import asyncio

            async def main(sim):
                factory = make_factory(sim)
                with patched((anyio, "open_process", factory)):
                    # the function runs as the main task of its own "event loop run", with no extra awaits added to it
                    t = asyncio.get_running_loop().create_task(func(*args), name="anyio-run-main")
                    await asyncio.wait({t})
                    # what asyncio.run()/anyio.run() do when the main task is over: cancel what is left and wait for it
                    left = sorted((x for x in asyncio.all_tasks() if x is not asyncio.current_task() and not x.done()), key=lambda x: x.get_name())
                    for x in left:
                        x.cancel()
                    if left:
                        await asyncio.wait(left)
                    # the loop is gone now; signals already sent are still delivered by the OS
                    await anyio.sleep(3.0)
                    all_spawns.extend(factory.spawns)
                    all_children.extend(factory.children)
                    holder["main_task"] = t
            holder["info"] = run_sim(main, max_steps=600_000, max_vtime=3000.0)
            if holder["info"].exc is not None:
                raise holder["info"].exc
            t = holder.get("main_task")
            if t is not None:
                if t.cancelled():
                    raise asyncio.CancelledError()
                if t.exception() is not None:
                    raise t.exception()
                return t.result()

        async def _cmd(server_streams, **kw):
            st["cmd_called"] = len(server_streams)
            st["cmd_kw"] = sorted(kw)
            for (r, w) in server_streams:
                st.setdefault("pings", []).append(await send_ping(r, w, timeout=2.0))
            return True

        _cmd.__name__ = scn["cmd_name"]
        if entry == "cli_main":
            # `python -m chuk_mcp --config <path> --server <name>` run from a directory that happens to hold a default config
            # (same server names, other commands): the explicit --config decides, whatever else is lying around
            import sys as _sys
            decoy_dir = os.path.join(d, "cwd")
            os.makedirs(decoy_dir, exist_ok=True)
            with open(os.path.join(decoy_dir, "server_config.json"), "w", encoding="utf-8") as f:
                json.dump({"mcpServers": {nm: {"command": "DECOY-from-default-config", "args": ["--decoy"]} for nm in list(by_name) + ["does-not-exist"]}}, f)
            old_cwd, old_argv = os.getcwd(), list(_sys.argv)
            os.chdir(decoy_dir)
            _sys.argv = ["chuk-mcp", "--config", path, "--server", names[0]]
            try:
                with patched((anyio, "run", fake_anyio_run)):
                    try:
                        mainmod.main()
                        st["outcome"] = ("return", None)
                    except SystemExit as e:
                        st["outcome"] = ("return", e.code == 0)
                    except BaseException as e:  # noqa
                        st["outcome"] = ("raise", e)
            finally:
                os.chdir(old_cwd)
                _sys.argv = old_argv
        else:
            with patched((anyio, "run", fake_anyio_run), (os, "system", lambda c: st["os_system"].append(c) or 0)):
                try:
                    st["outcome"] = ("return", smod.run_command(_cmd, path, list(names)))
                except BaseException as e:  # noqa
                    st["outcome"] = ("raise", e)
        info = holder.get("info")
        if info is None:
            info = run_sim(lambda sim: anyio.sleep(0), max_steps=100)  # anyio.run never called

    sim = info.sim
    out = {"violations": [], "digest": sim.digest(), "isig": sim.isig(), "faults": dict(sim.faults),
           "probes": dict(sim.probes), "vtime": info.vtime, "steps": info.steps, "harness": list(sim.harness_errors),
           "nontrivial": False, "history": None}
    if info.deadlock or info.limit:
        out["harness"].append(f"run did not complete: deadlock={info.deadlock} limit={info.limit}")
        return out

    def V(cls, sig, msg):
        out["violations"].append({"cls": f"C20/{cls}", "sig": f"C20/{cls}:{sig}", "msg": msg})

    def probe(k):
        out["probes"][k] = out["probes"].get(k, 0) + 1

    kind, val = st["outcome"]
    mal = scn["malformed"]
    expected_exc = {"missing_file": FileNotFoundError, "invalid_json": json.JSONDecodeError, "unknown_server": ValueError,
                    "no_mcpServers": ValueError}.get(mal)
    spawns = all_spawns
    hist = {"entry": entry, "names": names, "malformed": mal, "outcome": f"{kind}:{type(val).__name__}:{str(val)[:100]}",
            "spawns": [{"argv": s["argv"], "env_keys": sorted(s["env"]) if s["env"] else None, "error": s.get("error")} for s in spawns]}
    if mal:
        probe("malformed_config")
        out["faults"]["malformed:" + mal] = 1
    if entry == "load_config":
        if mal:
            if not (kind == "raise" and isinstance(val, expected_exc)):
                V("config-error", f"{mal}->{type(val).__name__ if kind == 'raise' else 'returned'}", f"load_config on {mal} gave {hist['outcome']}, expected {expected_exc.__name__}")
        else:
            s = by_name[names[0]]
            if kind != "return":
                V("loader", "raised", f"load_config raised {val!r} on a valid config")
            else:
                ok = isinstance(val, tuple) and len(val) == 2
                if ok:
                    p, to = val
                    exp_to = float(s["timeout"]) if "timeout" in s else None
                    ok = (p.command == s["command"] and list(p.args) == s.get("args", []) and (p.env == s.get("env")) and to == exp_to
                          and (to is None or isinstance(to, float)))
                if not ok:
                    V("loader", "wrong-parameters", f"load_config returned {val!r:.200} for server spec {s!r:.200}")
                if isinstance(s.get("timeout"), str):
                    probe("timeout_numeric_string")
                for (nm, rv) in st.get("repeat", []):
                    s2 = by_name[nm]
                    good = isinstance(rv, tuple) and len(rv) == 2 and rv[0].command == s2["command"] and list(rv[0].args) == s2.get("args", []) \
                        and rv[0].env == s2.get("env") and rv[1] == (float(s2["timeout"]) if "timeout" in s2 else None)
                    if not good:
                        V("loader", "repeat-load-differs", f"loading {nm!r} again from the unchanged file gave {rv!r:.200} for server spec {s2!r:.200}")
                        break
                if st.get("repeat"):
                    probe("repeat_load")
        if spawns:
            V("loader", "spawned", "load_config must not spawn anything")
    else:
        # entry points that launch: one spawn per configured (valid) server name, argv/env exact, handshake reached
        want = [] if (mal in ("missing_file", "invalid_json", "no_mcpServers")) else [n for n in names if n in by_name]
        if entry in ("test_server", "cli_main") and mal == "unknown_server":
            want = []
        if kind == "raise":
            V("entry-point", f"raised:{type(val).__name__}", f"{entry} raised {val!r:.200}")
        if len(spawns) != len(want):
            V("spawn-count", f"{entry}:{'none-spawned' if not spawns else ('fewer' if len(spawns) < len(want) else 'more')}", f"{entry} spawned {len(spawns)} processes for configured servers {want}: {hist['spawns']!r:.300}; outcome {hist['outcome']}")
        for n_, sp in zip(want, spawns):
            s = by_name[n_]
            exp_argv = [s["command"]] + s.get("args", [])
            if sp["argv"] != exp_argv:
                V("argv", entry, f"{entry} launched {sp['argv']!r}, configuration says {exp_argv!r}")
            if s.get("env"):
                probe("env_configured")
                if sp["env"] != s["env"]:
                    V("env", entry, f"{entry} passed env {sp['env']!r}, configuration says {s['env']!r}")
            elif not isinstance(sp["env"], dict):
                V("env", entry + ":not-a-dict", f"env passed to the spawn is {sp['env']!r}")
            else:
                # nothing configured: the documented default is the inherited safe subset of the parent environment
                inherit = ["HOME", "LOGNAME", "PATH", "SHELL", "TERM", "USER"]
                exp_env = {k_: os.environ[k_] for k_ in inherit if os.environ.get(k_) and not os.environ[k_].startswith("()")}
                if sp["env"] != exp_env:
                    V("env", entry + ":default-environment", f"no env configured: spawn got keys {sorted(sp['env'])}, the default inherited set is {sorted(exp_env)}")
            if any((" " in a or not a.isascii() or a == "") for a in s.get("args", [])):
                probe("args_with_spaces_or_unicode")
            if s.get("fault") == "unstartable":
                probe("one_server_unstartable")
                continue
            if s.get("fault") == "junk_first":
                probe("junk_before_answer")
            ci = sp.get("child")
            child = all_children[ci] if ci is not None and ci < len(all_children) else None
            if child is None:
                continue
            methods = []
            for raw in child.lines_in:
                try:
                    methods.append(json.loads(raw).get("method"))
                except Exception:
                    methods.append("<unparsable>")
            if not methods or methods[0] != "initialize":
                V("handshake", f"{entry}:no-initialize", f"witness for {n_} saw {methods[:4]}")
            elif "notifications/initialized" not in methods[1:]:
                V("handshake", f"{entry}:no-initialized", f"witness for {n_} saw {methods[:4]} - handshake not completed")
            if child.alive:
                V("cleanup", f"{entry}:child-left-running", f"witness child for {n_} still running 3 s after the entry point finished")
        if entry == "run_command":
            if mal == "unknown_server" and names and names[0] != "does-not-exist" and "does-not-exist" in names:
                probe("unknown_name_after_valid_one")
            if len(want) > 1:
                probe("run_command_multi_server")
            startable = [n for n in want if by_name[n].get("fault") != "unstartable"]
            if startable and st["cmd_called"] != len(startable):
                V("runner", "command-not-given-all-connections", f"command function received {st['cmd_called']} connections, "
                                                                                  f"{len(startable)} configured servers are startable; {hist['outcome']}")
            if not st["os_system"]:
                pass
        if entry == "cli_main":
            probe("cli_main_with_decoy_default_config")
            if mal and kind == "return" and val is not False:
                V("cli", f"exit-0-on-{mal}", f"the CLI exited successfully although the given --config is unusable ({mal}); {hist['outcome']}")
        if entry in ("test_server", "cli_main") and not mal and kind == "return":
            s = by_name[names[0]]
            exp_ok = s.get("fault") != "unstartable"
            if bool(val) != exp_ok:
                V("test_server", f"returned-{val}", f"test_server returned {val!r} for a server that {'answers' if exp_ok else 'cannot start'}")
    nontriv = entry != "load_config" and (any(s.get("env") or s.get("fault") or s.get("args") for s in scn["servers"]))
    out["nontrivial"] = bool(nontriv or mal)
    for s in scn["servers"]:
        if s.get("fault"):
            out["faults"]["child:" + s["fault"]] = out["faults"].get("child:" + s["fault"], 0) + 1
    shape = [(len(by_name[n_].get("args", [])) if "args" in by_name[n_] else -1, "env" in by_name[n_] and bool(by_name[n_]["env"]),
              type(by_name[n_].get("timeout")).__name__, by_name[n_].get("fault")) for n_ in names if n_ in by_name]
    out["isig"] = out["isig"] + f":{entry}:{mal}:{scn['cmd_name']}:{shape!r}"
    out["history"] = hist
    return out
