"""C11 - Streamable HTTP: exactly one terminal message per request, whatever the server.

SUT: real http_client()/StreamableHTTPTransport + the real httpx client layer on SimHTTPTransport.
Fault space: per-POST behaviour matrix {status} x {content-type} x {body kinds} x {SSE encodings} x
{transport exceptions} x {session header}; swept once systematically (fault enumeration), plus seeded
sequences of 1..4 (thorough 6) messages.
Oracle: independent SSE/JSON reference decoder; exactly-one-terminal; nothing invented or duplicated;
later requests survive; session header history.
"""
from __future__ import annotations

import copy
import importlib
import json
import random

import anyio
import httpx

from sim.loop import run_sim, ticks
from sim.streams import patched
from sim.fakes.http import SimHTTPTransport, make_client_class

ID = "C11"
LEVEL = "fault_enumeration"
RULE = ("systematic sweep of the per-POST behaviour matrix (status x content-type x body kind x SSE encoding x exception x session header, one "
        "request and one notification each) + seeded sequences of 1..4 (thorough 6) messages with random behaviours/latencies; "
        "non-trivial = at least one POST was answered by something other than a plain 200 JSON response")
PROBES = ["over_100_messages_in_one_answer", "misaddressed_response_with_a_later_requests_id", "sse_dataless_typed_event", "line_separator_chars_in_payload", "sse_without_event_field", "sse_no_space_after_data", "sse_crlf", "sse_comment_lines", "sse_multiline_data", "sse_multi_event",
          "json_batch_body", "error_status", "transport_exception", "timeout", "redirect_followed", "session_id_changed",
          "request_after_failure_answered", "empty_body", "notification_post_failed", "int_request_id"]
TIERS = {"quick": {"runs": 12000, "wall": 45.0}, "thorough": {"runs": 600000, "wall": 560.0}}
ASSUMPTIONS = [
    "httpx timeouts are raised by the fake at the configured instant (httpcore is bypassed); connection pooling is not simulated",
    "a synthesised terminal message is any single message with the request's id (value and type) and exactly one of result/error",
    "an SSE event not terminated by a blank line at end of body may or may not be dispatched (the spec discards it, the sentence is silent)",
    "session ids are only tracked on 2xx answers",
]
STUB = ["HTTP wire: SimHTTPTransport behind the real httpx.AsyncClient"]
SHRINK_LISTS = ["msgs"]

URL = "http://sim.test/mcp"
STATUSES = [200, 200, 200, 202, 204, 308, 307, 400, 401, 404, 429, 500, 503]
CTYPES = ["application/json", "application/json; charset=utf-8", "text/event-stream", "text/event-stream; charset=utf-8", "text/plain", None, "text/event-stream; charset=iso-8859-1", "application/json; charset=utf-8", "text/event-stream;charset=UTF-8"]
BODIES = ["response", "response", "error_response", "batch", "notifs_then_response", "wrong_id", "empty", "truncated", "non_json", "non_utf8", "latin1_json", "utf16_odd",
          "unicode_response", "json_scalar", "json_null", "id_only_object", "empty_array"]
EXCS = [None, None, None, None, None, "ConnectError", "ConnectTimeout", "ReadTimeout", "RemoteProtocolError", "ReadError"]


def _sse_enc(rng=None):
    r = (lambda a: rng.choice(a)) if rng else (lambda a: a[0])
    return {"event": r(["message", None, "message", None]), "space": r([True, False, True]), "eol": r(["\n", "\r\n", "\n"]),
            "comments": r([False, True]), "multiline": r([False, False, True]), "id_field": r([False, True]), "final_blank": r([True, True, True, False]),
            "ping_event": r([False, True]), "empty_typed_event": r([False, False, True])}


def _behaviour(rng):
    b = {"status": rng.choice(STATUSES), "ctype": rng.choice(CTYPES), "body": rng.choice(BODIES), "exc": rng.choice(EXCS),
         "latency": rng.choice([0, 1, 10, 500]), "sse": _sse_enc(rng), "session": rng.choice([None, None, "s1", "s2", "s3"]),
         "chunk": rng.choice([None, 1, 7, 64]), "body_exc": rng.choice([None] * 9 + ["ReadError"])}
    if b["status"] in (308, 307):
        b["location"] = rng.choice([URL, URL, None, "/mcp"])
        b["then"] = {"status": 200, "ctype": "application/json", "body": "response", "exc": None, "latency": 1, "sse": _sse_enc(), "session": None,
                     "chunk": None, "body_exc": None}
    return b


def generate(rng: random.Random, tier: str) -> dict:
    n = rng.choice([1, 1, 2, 3, 4, 4]) if tier == "quick" else rng.choice([1, 2, 3, 4, 6, 12])
    msgs = []
    for k in range(n):
        notif = rng.random() < 0.25
        m = {"notif": notif, "method": "notifications/initialized" if notif else rng.choice(["tools/list", "ping", "tools/call"]),
             "gap": rng.choice([0, 0, 1, 20]), "beh": _behaviour(rng), "build": rng.choice(["typed", "dict"])}
        if notif:
            # a server does not answer a notification with a response; what it can do: 202/204/200 without a message, server
            # notifications, junk, an error status or a transport failure
            m["beh"]["body"] = rng.choice(["empty", "empty", "notifs_only", "non_json", "truncated", "non_utf8"])
            if m["beh"]["status"] == 200 and rng.random() < 0.6:
                m["beh"]["status"] = 202
            if "then" in m["beh"]:
                m["beh"]["then"]["body"] = "empty"; m["beh"]["then"]["status"] = 202
        if not notif:
            m["id"] = rng.choice([f"r{k}", f"r{k}", k, f"{k}", f"id-ü{k}"])  # unique per message; k=0 gives the falsy id 0
        msgs.append(m)
    reqs = [i for i, m in enumerate(msgs) if not m["notif"]]
    for a, i in enumerate(reqs[:-1]):
        if rng.random() < 0.12:
            j = rng.choice(reqs[a + 1:])
            msgs[i]["beh"]["body"] = "wrong_id_as:" + json.dumps(msgs[j]["id"])
    for i in reqs:
        if rng.random() < 0.03:
            msgs[i]["beh"]["body"] = "many:" + str(rng.choice([101, 150, 230]))
            msgs[i]["beh"]["chunk"] = rng.choice([None, None, 64])
            if msgs[i]["beh"]["sse"].get("multiline"):
                msgs[i]["beh"]["sse"]["multiline"] = False
    return {"v": 1, "timeout": rng.choice([2.0, 0.5, 8.0]), "msgs": msgs, "init_session": rng.choice([None, None, "preset"]),
            "max_concurrent": rng.choice([10, 10, 1, 2, 3])}


def _mk(status, ctype, body, notif=False, exc=None, sse=None, session=None, rid="r0", latency=1, **kw):
    b = {"status": status, "ctype": ctype, "body": body, "exc": exc, "latency": latency, "sse": sse or _sse_enc(), "session": session, "chunk": None,
         "body_exc": None}
    b.update(kw)
    m = {"notif": notif, "method": "notifications/initialized" if notif else "tools/list", "gap": 0, "beh": b, "build": "typed"}
    if not notif:
        m["id"] = rid
    return m


def systematic(tier: str):
    """One request and one notification per cell of the behaviour matrix, each followed by a plain request (does the sender loop survive?)."""
    out = []
    follow = _mk(200, "application/json", "response", rid="after")
    cells = []
    for status in [200, 202, 204, 308, 307, 400, 404, 500]:
        for ctype in ["application/json", "text/event-stream", "text/plain", None]:
            for body in ["response", "error_response", "batch", "notifs_then_response", "wrong_id", "empty", "truncated", "non_json", "non_utf8", "latin1_json", "utf16_odd",
                         "json_scalar", "json_null", "id_only_object", "empty_array"]:
                cells.append(dict(status=status, ctype=ctype, body=body))
    sse_variants = []
    for event in ["message", None]:
        for space in [True, False]:
            for eol in ["\n", "\r\n"]:
                for extra in [{}, {"comments": True}, {"multiline": True}, {"id_field": True}, {"final_blank": False}, {"ping_event": True},
                              {"empty_typed_event": True}]:
                    e = _sse_enc(); e.update({"event": event, "space": space, "eol": eol}); e.update(extra)
                    sse_variants.append(e)
    for c in cells:
        for notif in (False, True):
            if notif and c["body"] not in ("empty", "truncated", "non_json", "non_utf8", "json_scalar", "empty_array"):
                if c["body"] != "notifs_then_response":
                    continue
                c = dict(c, body="notifs_only")
            for rid in (("r0", 7) if not notif and c["status"] in (200, 500) and c["body"] in ("response", "empty", "non_json") else ("r0",)):
                m = _mk(c["status"], c["ctype"], c["body"], notif=notif, rid=rid)
                if c["status"] in (308, 307):
                    m["beh"]["location"] = URL
                    m["beh"]["then"] = _mk(202, None, "empty")["beh"] if notif else _mk(200, "application/json", "response")["beh"]
                out.append({"v": 1, "timeout": 2.0, "msgs": [m, copy.deepcopy(follow)], "init_session": None})
    for e in sse_variants:
        for body in ["response", "notifs_then_response", "error_response", "unicode_response"]:
            out.append({"v": 1, "timeout": 2.0, "msgs": [_mk(200, "text/event-stream", body, sse=e), copy.deepcopy(follow)], "init_session": None})
    for exc in ["ConnectError", "ConnectTimeout", "ReadTimeout", "RemoteProtocolError", "ReadError"]:
        for notif in (False, True):
            out.append({"v": 1, "timeout": 2.0, "msgs": [_mk(200, "application/json", "response", notif=notif, exc=exc), copy.deepcopy(follow)], "init_session": None})
    out.append({"v": 1, "timeout": 2.0, "msgs": [_mk(200, "application/json", "response", body_exc="ReadError"), copy.deepcopy(follow)], "init_session": None})
    # session header histories
    for seq in (["s1", None, "s2", None], [None, "s1", "s1", "s2"], ["s1", "s2", None, None]):
        out.append({"v": 1, "timeout": 2.0, "init_session": None,
                    "msgs": [_mk(200, "application/json", "response", session=s, rid=f"q{i}") for i, s in enumerate(seq)]})
    for beh in [(503, "text/plain", "non_json"), (202, None, "empty"), (204, None, "empty"), (400, "application/json", "error_response"), (202, "text/plain", "truncated")]:
        for notif in (False, True):
            out.append({"v": 1, "timeout": 2.0, "init_session": None, "max_concurrent": 1,
                        "msgs": [_mk(beh[0], beh[1], beh[2], notif=notif, rid="q0"), _mk(beh[0], beh[1], beh[2], rid="q1"), _mk(200, "application/json", "response", rid="q2")]})
    out.append({"v": 1, "timeout": 2.0, "init_session": "preset",
                "msgs": [_mk(500, "text/plain", "non_json", session="bad", rid="q0"), _mk(200, "application/json", "response", rid="q1")]})
    return out


def simplify(scn):
    for i, m in enumerate(scn["msgs"]):
        b = m["beh"]
        for key, val in (("latency", 0), ("chunk", None), ("body_exc", None), ("session", None), ("exc", None)):
            if b.get(key) != val:
                c = copy.deepcopy(scn); c["msgs"][i]["beh"][key] = val; yield c
        if m.get("gap"):
            c = copy.deepcopy(scn); c["msgs"][i]["gap"] = 0; yield c
        if b["sse"] != _sse_enc() and "event-stream" not in (b["ctype"] or ""):
            c = copy.deepcopy(scn); c["msgs"][i]["beh"]["sse"] = _sse_enc(); yield c
        for key, val in (("comments", False), ("multiline", False), ("id_field", False), ("ping_event", False), ("empty_typed_event", False), ("final_blank", True), ("eol", "\n")):
            if b["sse"].get(key) != val:
                c = copy.deepcopy(scn); c["msgs"][i]["beh"]["sse"][key] = val; yield c
    if scn["init_session"]:
        c = copy.deepcopy(scn); c["init_session"] = None; yield c
    if scn.get("max_concurrent", 10) != 10:
        c = copy.deepcopy(scn); c["max_concurrent"] = 10; yield c


# ---- body construction --------------------------------------------------------------------

def _messages_for(body, rid, k):
    """the JSON-RPC messages the server means to send for this body kind (None for junk kinds)"""
    mk = f"m{k}"
    resp = {"jsonrpc": "2.0", "id": rid, "result": {"marker": mk, "tools": []}}
    if body == "response":
        return [resp]
    if body == "unicode_response":
        return [{"jsonrpc": "2.0", "id": rid, "result": {"marker": mk, "text": "é€\U0001F600 ls\u2028ps\u2029nel\u0085vt\u000bff\u000c end"}}]
    if body == "error_response":
        return [{"jsonrpc": "2.0", "id": rid, "error": {"code": -32001, "message": "server says no " + mk}}]
    if body == "batch":
        return [{"jsonrpc": "2.0", "method": "notifications/message", "params": {"data": mk}}, resp]
    if body == "notifs_then_response":
        return [{"jsonrpc": "2.0", "method": "notifications/progress", "params": {"progressToken": "t", "progress": 1, "marker": mk}},
                {"jsonrpc": "2.0", "method": "notifications/message", "params": {"data": mk + " a\u2028b\u0085c"}}, resp]
    if body == "wrong_id":
        return [{"jsonrpc": "2.0", "id": "somebody-else", "result": {"marker": mk}}]
    if body.startswith("wrong_id_as:"):
        # a mis-addressed response that carries the id a LATER request of this session is going to use
        return [{"jsonrpc": "2.0", "id": json.loads(body.split(":", 1)[1]), "result": {"marker": mk, "misaddressed": True}}]
    if body.startswith("many:"):
        # more messages in one answer than the read stream buffers (100)
        n = int(body.split(":")[1])
        return [{"jsonrpc": "2.0", "method": "notifications/progress", "params": {"progressToken": "t", "progress": q, "marker": mk}} for q in range(n)] + [resp]
    if body == "notifs_only":
        return [{"jsonrpc": "2.0", "method": "notifications/message", "params": {"data": mk}}]
    return None


def _sse_bytes(msgs, enc, ascii_only=False):
    eol = enc["eol"]
    sp = " " if enc["space"] else ""
    out = []
    if enc.get("comments"):
        out.append(": keepalive comment")
    if enc.get("ping_event"):
        out += ["event:" + sp + "ping", "data:" + sp + "{}", ""]
    if enc.get("empty_typed_event"):
        out += ["event:" + sp + "heartbeat", ""]  # a typed event without data: dispatches nothing and must not leak its type
    for i, m in enumerate(msgs):
        if enc.get("comments") and i:
            out.append(":another comment")
        if enc.get("id_field"):
            out.append(f"id:{sp}{i + 1}")
        if enc["event"]:
            out.append(f"event:{sp}{enc['event']}")
        if enc.get("multiline"):
            for ln in json.dumps(m, indent=1, ensure_ascii=ascii_only).split("\n"):
                out.append(f"data:{sp}{ln}")
        else:
            out.append(f"data:{sp}{json.dumps(m, ensure_ascii=ascii_only)}")
        if i < len(msgs) - 1 or enc.get("final_blank", True):
            out.append("")
    return (eol.join(out) + eol).encode("utf-8")


def _body_bytes(b, rid, k, is_sse):
    body = b["body"]
    msgs = _messages_for(body, rid, k)
    # a server that declares a non-UTF-8 charset sends \u-escaped (pure ASCII) JSON: the bytes mean the same in either charset
    asc = "8859" in (b.get("ctype") or "")
    if msgs is not None:
        if is_sse:
            return _sse_bytes(msgs, b["sse"], asc)
        if body == "batch" or len(msgs) > 1:
            return json.dumps(msgs, ensure_ascii=asc).encode()
        return json.dumps(msgs[0], ensure_ascii=asc).encode()
    if body == "empty":
        return b""
    if body == "truncated":
        full = _sse_bytes(_messages_for("response", rid, k), b["sse"]) if is_sse else json.dumps(_messages_for("response", rid, k)[0]).encode()
        return full[: max(3, len(full) // 2)]
    if body == "non_json":
        return b"<html><body>Bad gateway</body></html>"
    if body == "non_utf8":
        return b"\xff\xfe\x00{\x80\x81"
    if body == "latin1_json":
        # a perfectly good answer, encoded in the wrong charset (0xE9 is no UTF-8)
        return json.dumps({"jsonrpc": "2.0", "id": rid, "result": {"marker": f"m{k}", "text": "caf\u00e9"}}, ensure_ascii=False).encode("latin-1")
    if body == "utf16_odd":
        return json.dumps({"jsonrpc": "2.0", "id": rid, "result": {"marker": f"m{k}"}}).encode("utf-16-le")[:-1]
    payload = {"json_scalar": b'"ok"', "json_null": b"null", "id_only_object": json.dumps({"jsonrpc": "2.0", "id": rid}).encode(), "empty_array": b"[]"}[body]
    if is_sse:
        return b"data: " + payload + b"\n\n"
    return payload


# ---- independent reference decoder ------------------------------------------------------------

def ref_sse(text):
    """WHATWG event-stream parsing -> (dispatched [(type, data)], pending (type, data) | None)."""
    lines = text.replace("\r\n", "\n").replace("\r", "\n").split("\n")
    events, ev, data = [], None, []
    for ln in lines:
        if ln == "":
            if data:
                events.append((ev or "message", "\n".join(data)))
            ev, data = None, []
            continue
        if ln.startswith(":"):
            continue
        field, sep, value = ln.partition(":")
        if value.startswith(" "):
            value = value[1:]
        if field == "event":
            ev = value
        elif field == "data":
            data.append(value)
    pending = (ev or "message", "\n".join(data)) if data else None
    return events, pending


def _is_rpc(o):
    return isinstance(o, dict) and o.get("jsonrpc") == "2.0" and ("method" in o or (("result" in o) != ("error" in o) and "id" in o))


def expected_for(b, rid, notif, k, timeout):
    """-> list of alternatives; each alternative is a list of items ('exact', obj) | ('terminal', rid) for this POST."""
    terminal = [[("terminal", rid)]] if not notif else [[], [("noid",)]]
    if b.get("exc") or b.get("body_exc"):
        return terminal
    if b["latency"] and ticks(b["latency"]) >= timeout:
        return terminal
    status = b["status"]
    if status in (308, 307):
        if b.get("location") is None:
            return terminal  # a redirect without Location is just a non-2xx answer
        return expected_for(b["then"], rid, notif, k, timeout)
    if status >= 400 or status == 204:
        return terminal
    ctype = b["ctype"] or ""
    is_sse = "text/event-stream" in ctype
    is_json = "application/json" in ctype
    raw = _body_bytes(b, rid, k, is_sse)
    try:
        text = raw.decode("utf-8")
    except UnicodeDecodeError:
        if is_json or is_sse:
            return terminal
        # neither JSON nor SSE by its content type and not UTF-8 either: treating it as malformed is fine, and so is reading it the way an
        # HTTP client reads text of unknown charset (undecodable bytes replaced) - the sentence leaves this cell open
        text = raw.decode("utf-8", "replace")
    if is_json:
        try:
            o = json.loads(text)
        except Exception:
            return terminal
        objs = o if isinstance(o, list) else [o]
        if not objs or not all(_is_rpc(x) for x in objs):
            return terminal
        return [[("exact", x) for x in objs]]
    if is_sse:
        events, pending = ref_sse(text)
        def msgs_of(evs):
            out = []
            for (t, d) in evs:
                if t != "message":
                    continue
                try:
                    o = json.loads(d)
                except Exception:
                    continue
                if _is_rpc(o):
                    out.append(("exact", o))
            return out
        alts = [msgs_of(events)]
        if pending is not None:
            alts.append(msgs_of(events + [pending]))
        res = []
        for a in alts:
            if a:
                res.append(a)
            else:
                res.extend(terminal)  # a stream without any message: empty/malformed body -> synthesised terminal
        return res
    # other / absent content type: the sentence covers JSON bodies, SSE bodies and "empty or malformed body";
    # a body that is well-formed JSON-RPC under a wrong/missing content type may be decoded or treated as malformed
    alts = list(terminal)
    try:
        o = json.loads(text)
        objs = o if isinstance(o, list) else [o]
        if objs and all(_is_rpc(x) for x in objs):
            alts.append([("exact", x) for x in objs])
    except Exception:
        pass
    if text.lstrip().startswith(("event:", "data:", ":")):
        events, pending = ref_sse(text)
        got = []
        for (t, d) in events + ([pending] if pending else []):
            try:
                o = json.loads(d)
                if t == "message" and _is_rpc(o):
                    got.append(("exact", o))
            except Exception:
                pass
        if got:
            alts.append(got)
    return alts


def execute(scn: dict) -> dict:
    httpmod = importlib.import_module("chuk_mcp.transports.http.http_client")
    from chuk_mcp.transports.http.parameters import StreamableHTTPParameters
    from chuk_mcp.protocol.messages.json_rpc_message import JSONRPCRequest, JSONRPCNotification

    st = {"read": [], "posts": []}
    timeout = scn["timeout"]

    async def main(sim):
        counter = {"k": 0, "redirect_for": None}

        def server(rec):
            # which scenario message is this POST for?
            try:
                posted = json.loads(rec["body"]) if rec["body"] else None
            except Exception:
                posted = None
            kk = (posted.get("params") or {}).get("k") if isinstance(posted, dict) else None
            if kk is None:
                kk = counter.get("redirect_k", 0)
            if counter["redirect_for"] is not None and counter.get("redirect_k") == kk:
                b = counter["redirect_for"]["then"]
                k = kk
                counter["redirect_for"] = None
                sim.probe("redirect_followed")
            else:
                counter["redirect_for"] = None
                k = kk
                b = scn["msgs"][k]["beh"] if isinstance(k, int) and 0 <= k < len(scn["msgs"]) else {"status": 500, "ctype": None, "body": "empty", "exc": None, "latency": 0, "sse": _sse_enc(), "session": None}
            rid = posted.get("id") if isinstance(posted, dict) else None
            st["posts"].append({"k": k, "posted": posted, "headers": rec["headers"], "method": rec["method"], "url": rec["url"], "t": rec["t"],
                                "status": b["status"], "session_issued": b.get("session"), "exc": b.get("exc")})
            beh = {"latency": ticks(b["latency"]), "exc": b.get("exc"), "status": b["status"], "headers": []}
            if b["status"] in (308, 307):
                if b.get("location"):
                    beh["headers"].append(("location", b["location"]))
                    counter["redirect_for"] = b
                    counter["redirect_k"] = k
                beh["chunks"] = []
                return beh
            ctype = b["ctype"]
            if ctype:
                beh["headers"].append(("content-type", ctype))
            if b.get("session"):
                beh["headers"].append(("mcp-session-id", b["session"]))
            raw = _body_bytes(b, rid, k, "text/event-stream" in (ctype or "")) if b["status"] != 204 else b""
            ch = b.get("chunk")
            if ch:
                beh["chunks"] = [(ticks(1) if i else 0, raw[i:i + ch]) for i in range(0, len(raw), ch)][:400] or [(0, b"")]
                if len(raw) > ch * 400:
                    beh["chunks"].append((0, raw[ch * 400:]))
            else:
                beh["chunks"] = [(0, raw)]
            beh["body_exc"] = b.get("body_exc")
            return beh

        transport = SimHTTPTransport(sim, server)
        st["transport"] = transport
        Client = make_client_class(lambda: transport)
        with patched((httpx, "AsyncClient", Client)):
            params = StreamableHTTPParameters(url=URL, timeout=timeout, session_id=scn["init_session"], max_concurrent_requests=scn.get("max_concurrent", 10))
            async with httpmod.http_client(params) as (read_stream, write_stream):
                async def drain():
                    async for m in read_stream:
                        st["read"].append((sim.rec("client", "got", None), sim.now(), m))

                async with anyio.create_task_group() as tg:
                    tg.start_soon(drain, name="drain-read")
                    for k, m in enumerate(scn["msgs"]):
                        if m["gap"]:
                            await anyio.sleep(ticks(m["gap"]))
                        d = {"jsonrpc": "2.0", "method": m["method"], "params": {"k": k}}
                        if not m["notif"]:
                            d["id"] = m["id"]
                        if m["build"] == "typed":
                            obj = (JSONRPCNotification if m["notif"] else JSONRPCRequest).model_validate(d)
                        else:
                            obj = d
                        await write_stream.send(obj)
                    # generous: every POST can take up to `timeout`
                    await anyio.sleep(len(scn["msgs"]) * (timeout + 1.0) + 5.0)
                    tg.cancel_scope.cancel()

    info = run_sim(main, max_steps=400_000, max_vtime=2000.0)
    sim = info.sim
    out = {"violations": [], "digest": sim.digest(), "isig": sim.isig(), "faults": dict(sim.faults),
           "probes": dict(sim.probes), "vtime": info.vtime, "steps": info.steps, "harness": list(sim.harness_errors),
           "nontrivial": False, "history": None}
    if info.deadlock or info.limit or info.exc is not None:
        out["harness"].append(f"run did not complete: deadlock={info.deadlock} limit={info.limit} exc={info.exc!r}")
        return out

    def V(cls, sig, msg):
        out["violations"].append({"cls": f"C11/{cls}", "sig": f"C11/{cls}:{sig}", "msg": msg})

    def probe(k):
        out["probes"][k] = out["probes"].get(k, 0) + 1

    got = []
    for (_e, _t, m) in st["read"]:
        if hasattr(m, "model_dump"):
            d = m.model_dump()
            got.append({k: v for k, v in d.items() if v is not None})
        else:
            got.append({"<non-message>": repr(m)[:80]})
    posts = st["posts"]
    first_posts = {}
    for p in posts:
        first_posts.setdefault(p["k"], p)
    # every scenario message must have been POSTed, in order, with the right body
    nposted = len(first_posts)
    if nposted != len(scn["msgs"]):
        V("sender", "message-not-posted", f"{nposted} of {len(scn['msgs'])} outbound messages were POSTed (sender loop stopped?)")
    pos = 0
    nontrivial = False
    failed_before = False
    for k, m in enumerate(scn["msgs"]):
        b = m["beh"]
        rid = m.get("id")
        if k not in first_posts:
            break
        posted = first_posts[k]["posted"]
        exp_post = {"jsonrpc": "2.0", "method": m["method"], "params": {"k": k}}
        if not m["notif"]:
            exp_post["id"] = rid
        if posted != exp_post:
            V("sender", "post-body", f"POST #{k} carried {posted!r:.160}, expected {exp_post!r:.160}")
        acc = first_posts[k]["headers"].get("accept", "")
        if "application/json" not in acc or "text/event-stream" not in acc:
            V("sender", "accept-header", f"POST #{k} Accept header {acc!r}")
        plain = (b["status"] == 200 and "application/json" in (b["ctype"] or "") and b["body"] in ("response",) and not b.get("exc") and not b.get("body_exc"))
        if not plain:
            nontrivial = True
        alts = expected_for(b, rid, m["notif"], k, timeout)
        # classify for probes / sig
        ctype = b["ctype"] or ""
        tag = _tag(b, m["notif"])
        if isinstance(rid, int):
            probe("int_request_id")
        if b.get("exc") or b.get("body_exc"):
            probe("transport_exception"); probe("timeout") if b.get("exc") in ("ReadTimeout", "ConnectTimeout") else None
        elif b["status"] >= 400:
            probe("error_status")
        if b["body"] == "empty" or b["status"] == 204:
            probe("empty_body")
        if m["notif"] and (b.get("exc") or b["status"] >= 400):
            probe("notification_post_failed")
        if "event-stream" in ctype and b["status"] < 300 and not b.get("exc") and _messages_for(b["body"], rid, k):
            e = b["sse"]
            if not e["event"]:
                probe("sse_without_event_field")
            if not e["space"]:
                probe("sse_no_space_after_data")
            if e["eol"] == "\r\n":
                probe("sse_crlf")
            if e.get("comments"):
                probe("sse_comment_lines")
            if e.get("multiline"):
                probe("sse_multiline_data")
            if e.get("empty_typed_event"):
                probe("sse_dataless_typed_event")
            if b["body"] == "notifs_then_response":
                probe("sse_multi_event")
        if b["body"] == "batch" and "json" in ctype and b["status"] < 300 and not b.get("exc"):
            probe("json_batch_body")
        if b["body"].startswith("many:") and b["status"] in (200, 202) and not b.get("exc") and ("json" in ctype or "event-stream" in ctype):
            probe("over_100_messages_in_one_answer")
        if b["body"].startswith("wrong_id_as:") and b["status"] in (200, 202) and not b.get("exc") and ("json" in ctype or "event-stream" in ctype):
            probe("misaddressed_response_with_a_later_requests_id")
        if b["body"] in ("unicode_response", "notifs_then_response") and b["status"] < 300 and not b.get("exc"):
            probe("line_separator_chars_in_payload")
        matched = None
        for alt in sorted(alts, key=len, reverse=True):
            seg = got[pos:pos + len(alt)]
            if len(seg) == len(alt) and all(_match(item, g) for item, g in zip(alt, seg)):
                # make sure the next message (if any) is not an extra one for this POST: handled by the following POST's match
                matched = alt
                break
        if matched is None:
            seg = got[pos:pos + 3]
            want = alts[0]
            # diagnose
            if not want or want == [("noid",)]:
                cause = "invented-for-notification"
            elif want[0][0] == "terminal":
                nxt = got[pos] if pos < len(got) else None
                if nxt is None or not _about(nxt, rid):
                    cause = "no-terminal-message"
                elif _about(nxt, rid) and not _match(("terminal", rid), nxt):
                    cause = "terminal-id-type-or-shape"
                else:
                    cause = "extra-or-wrong"
            else:
                exp_objs = [x[1] for x in want]
                present = [g for g in got[pos:] if g in exp_objs]
                if not present:
                    cause = "server-messages-lost"
                elif len(present) < len(exp_objs):
                    cause = "server-messages-partly-lost"
                else:
                    cause = "order-or-extra"
            kl = _klass(b, m["notif"], rid, k, timeout)
            V("post-outcome", f"{'N' if m['notif'] else 'R'}:{kl}:{cause}", f"POST #{k} ({'notification' if m['notif'] else 'request id=' + repr(rid)}) answered {tag}: read stream continued with "
              f"{seg!r:.300}; acceptable: {_show(alts)!r:.300}")
            # resynchronise: skip whatever concerns this request
            while pos < len(got) and (_about(got[pos], rid) or any(_match(it, got[pos]) for alt in alts for it in alt)):
                pos += 1
        else:
            pos += len(matched)
            if failed_before and not m["notif"]:
                probe("request_after_failure_answered")
        if b.get("exc") or b["status"] >= 400 or b.get("body_exc"):
            failed_before = True
    if pos < len(got):
        V("invented", "extra-messages", f"{len(got) - pos} message(s) on the read stream that no server answer accounts for: {got[pos:pos + 3]!r:.300}")
    # session header history
    cur = scn["init_session"]
    last_issued = None
    for p in posts:
        sent = p["headers"].get("mcp-session-id")
        if sent != cur:
            V("session", "wrong-session-header", f"POST for message #{p['k']} carried Mcp-Session-Id={sent!r}, the most recent id issued on a 2xx answer is {cur!r}")
            break
        if p["session_issued"] and not p["exc"] and 200 <= p["status"] < 300:
            b = scn["msgs"][p["k"]]["beh"] if p["k"] < len(scn["msgs"]) else {}
            lat_ok = not (b.get("latency") and ticks(b["latency"]) >= timeout) and not b.get("body_exc")
            if lat_ok:
                if cur is not None and p["session_issued"] != cur:
                    probe("session_id_changed")
                cur = p["session_issued"]
    out["nontrivial"] = nontrivial
    out["isig"] = out["isig"] + ":" + "|".join(_tag(m["beh"], m["notif"]) for m in scn["msgs"])
    out["history"] = {"posts": [{"k": p["k"], "status": p["status"], "exc": p["exc"], "session_sent": p["headers"].get("mcp-session-id")} for p in posts][:8],
                      "read": got[:10], "behaviours": [_tag(m["beh"], m["notif"]) for m in scn["msgs"]]}
    return out


def _klass(b, notif, rid, k, timeout):
    """coarse class of a per-POST behaviour (used in signatures)"""
    if b.get("exc") or b.get("body_exc") or (b["latency"] and ticks(b["latency"]) >= timeout):
        return "transport-failure"
    st_ = b["status"]
    if st_ in (308, 307):
        return "redirect" if b.get("location") else "redirect-without-location"
    if st_ >= 400:
        return "error-status"
    if st_ == 204 or b["body"] == "empty":
        return "empty-body"
    ct = b["ctype"] or ""
    junk = b["body"] in ("truncated", "non_json", "non_utf8", "latin1_json", "utf16_odd", "json_scalar", "json_null", "id_only_object", "empty_array")
    if "text/event-stream" in ct:
        return "malformed-sse-body" if junk else "sse-body"
    if "application/json" in ct:
        if junk:
            return "malformed-json-body"
        return "json-batch-body" if b["body"] in ("batch", "notifs_then_response") else "json-body"
    return "other-ctype-junk" if junk else "other-ctype-jsonrpc"


def _tag(b, notif):
    if b.get("exc"):
        core = "exc=" + b["exc"]
    elif b.get("body_exc"):
        core = "body_exc=" + b["body_exc"]
    else:
        ct = (b["ctype"] or "none").split(";")[0].replace("application/", "").replace("text/", "")
        core = f"{b['status']}/{ct}/{b['body']}"
        if "event-stream" in (b["ctype"] or "") and b["status"] < 300:
            e = b["sse"]
            core += "/sse(" + ",".join(x for x, on in (("noevent", not e["event"]), ("nospace", not e["space"]), ("crlf", e["eol"] == "\r\n"),
                                                       ("comments", e.get("comments")), ("multiline", e.get("multiline")), ("id", e.get("id_field")),
                                                       ("nofinalblank", not e.get("final_blank", True)), ("ping", e.get("ping_event")), ("emptytyped", e.get("empty_typed_event"))) if on) + ")"
    return ("N:" if notif else "R:") + core


def _match(item, g):
    if item[0] == "exact":
        return g == item[1]
    if item[0] == "terminal":
        rid = item[1]
        return (isinstance(g, dict) and "method" not in g and g.get("id") == rid and type(g.get("id")) is type(rid)
                and (("result" in g) != ("error" in g)))
    if item[0] == "noid":
        return isinstance(g, dict) and g.get("id") is None and "method" not in g
    return False


def _about(g, rid):
    return isinstance(g, dict) and rid is not None and (g.get("id") == rid or str(g.get("id")) == str(rid))


def _show(alts):
    return [[(i[0], i[1] if len(i) > 1 else None) for i in a] for a in alts][:3]
