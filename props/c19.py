"""C19 - server session bookkeeping behaves like a map from unique ids to records.

SUT: real InMemorySessionManager and ProtocolHandler (initialize, requests with a session id) under a
simulated, skewable wall clock (module attribute chuk_mcp.server.session.memory.time) and seeded uuid4.
Oracle: reference dict stepped in lock-step; full-state equality after every operation.
"""
from __future__ import annotations

import copy
import importlib
import random
import uuid as _uuid

import anyio

from sim.loop import run_sim, ticks
from sim.streams import patched, FakeUUID

ID = "C19"
LEVEL = "exploration"
RULE = ("scenario = operation sequence (quick <= 14, thorough <= 200) over {create, get, update activity, delete, cleanup(max_age), list+mutate, "
        "clear, count, handle initialize, handle request/notification with known/unknown session id (some with slow handlers running "
        "concurrently)} interleaved with clock moves (to max_age-eps / exactly max_age / max_age+eps idle, zero advance, big jumps, backward skew); "
        "non-trivial = a cleanup ran with at least one session within 1 s of the expiry boundary, or a handler overlapped another operation, or the clock went backwards")
PROBES = ["initialize_with_unsupported_version", "idle_exactly_max_age", "idle_just_over_max_age", "idle_just_under_max_age", "clock_went_backwards", "listing_mutated",
          "request_with_unknown_session", "slow_handler_overlapped", "cleanup_removed_some_kept_some"]
TIERS = {"quick": {"runs": 20000, "wall": 45.0}, "thorough": {"runs": 600000, "wall": 560.0}}
ASSUMPTIONS = ["the wall clock is the module attribute `time` of chuk_mcp.server.session.memory (read at call time)",
               "uuid4 is seeded: id uniqueness is checked against the library's own id derivation, not against real entropy"]
STUB = ["wall clock (skewable, jumps), uuid4"]
SHRINK_LISTS = ["ops"]

MAX_AGES = [0, 1, 3600, 0.5, 10]
VERSIONS = ["2025-06-18", "2025-03-26", "2024-11-05"]


def generate(rng: random.Random, tier: str) -> dict:
    n = rng.choice([3, 6, 10, 14]) if tier == "quick" else rng.choice([10, 30, 80, 200])
    ops = []
    for _ in range(n):
        r = rng.random()
        if r < 0.16:
            ops.append({"op": "create", "info": rng.choice([{}, {"name": "c", "version": "1"}, {"name": "ü", "x": [1, None]}]),
                        "version": rng.choice(VERSIONS + ["weird"]), "meta": rng.choice([None, None, {"k": 1}])})
        elif r < 0.26:
            ops.append({"op": "get", "which": rng.randrange(-1, 6)})
        elif r < 0.36:
            ops.append({"op": "update", "which": rng.randrange(-1, 6)})
        elif r < 0.43:
            ops.append({"op": "delete", "which": rng.randrange(-1, 6)})
        elif r < 0.58:
            ops.append({"op": "cleanup", "max_age": rng.choice(MAX_AGES + [None])})
        elif r < 0.64:
            ops.append({"op": "list_mutate", "how": rng.choice(["add", "remove", "clear", "replace"])})
        elif r < 0.65:
            ops.append({"op": "clear"})
        elif r < 0.66:
            # the embedding application re-seeds the process-wide random module (a seeded game, a test harness, a forked worker)
            sd = rng.choice([0, 1234])
            for _q in range(2):
                ops.append({"op": "reseed_random", "seed": sd})
                ops.append({"op": rng.choice(["create", "initialize"]), "info": {"name": "after-reseed"}, "version": VERSIONS[0], "meta": None, "sid": None})
        elif r < 0.70:
            ops.append({"op": "count"})
        elif r < 0.80:
            ops.append({"op": "initialize", "info": rng.choice([None, {"name": "cli", "version": "9"}, "NULL", "STR", "LIST"]),
                        "version": rng.choice(VERSIONS + [None, "1999-01-01", "2026-01-01", "not-a-version", "", 20250618]),
                        "sid": rng.choice([None, None, 0])})
        elif r < 0.88:
            ops.append({"op": "request", "which": rng.randrange(-1, 6), "notification": rng.random() < 0.3,
                        "method": rng.choice(["ping", "slow", "slow", "nope"]), "sleep": rng.choice([1, 100, 2000])})
        else:
            # clock move, often aimed at an expiry boundary of some session for the next cleanup
            ops.append({"op": "clock", "how": rng.choice(["to_boundary", "to_boundary", "advance", "advance", "zero", "back", "jump"]),
                        "which": rng.randrange(0, 6), "max_age": rng.choice(MAX_AGES), "eps": rng.choice([-0.001, 0.0, 0.001, -1, 1]),
                        "dt": rng.choice([0.25, 1, 59, 3600, 86400 * 400])})
    return {"v": 1, "uuid_seed": rng.getrandbits(40), "t0": rng.choice([0.0, 1.7e9, 1.7e9 + 0.123]), "ops": ops}


def systematic(tier: str):
    """Expiry boundary on a grid: two sessions, the second touched (update / request / nothing) at some point, the clock placed at
    max_age + eps for every eps of a small set relative to either session, then cleanup with that max_age."""
    out = []
    for max_age in MAX_AGES:
        for touch in (None, "update", "request"):
            for which in (0, 1):
                for eps in (-1, -0.001, 0.0, 0.001, 1):
                    for t0 in (0.0, 1.7e9 + 0.123):
                        ops = [{"op": "create", "info": {"name": "a"}, "version": VERSIONS[0], "meta": None},
                               {"op": "clock", "how": "advance", "which": 0, "max_age": max_age, "eps": 0.0, "dt": 0.25},
                               {"op": "create", "info": {"name": "b"}, "version": VERSIONS[0], "meta": None}]
                        if touch == "update":
                            ops += [{"op": "clock", "how": "advance", "which": 0, "max_age": max_age, "eps": 0.0, "dt": 1}, {"op": "update", "which": 1}]
                        elif touch == "request":
                            ops += [{"op": "clock", "how": "advance", "which": 0, "max_age": max_age, "eps": 0.0, "dt": 1},
                                    {"op": "request", "which": 1, "notification": False, "method": "ping", "sleep": 1}]
                        ops += [{"op": "clock", "how": "to_boundary", "which": which, "max_age": max_age, "eps": eps, "dt": 1},
                                {"op": "cleanup", "max_age": max_age}, {"op": "count"}, {"op": "get", "which": 0}, {"op": "get", "which": 1}]
                        out.append({"v": 1, "uuid_seed": 31337, "t0": t0, "ops": ops})
    return out


def simplify(scn):
    for i, op in enumerate(scn["ops"]):
        if op["op"] == "request" and op.get("method") == "slow":
            c = copy.deepcopy(scn); c["ops"][i]["method"] = "ping"; yield c
    if scn["t0"]:
        c = copy.deepcopy(scn); c["t0"] = 0.0; yield c


class _Clock:
    def __init__(self, t0):
        self.now = t0

    def time(self):
        return self.now


def execute(scn: dict) -> dict:
    memmod = importlib.import_module("chuk_mcp.server.session.memory")
    from chuk_mcp.server.protocol_handler import ProtocolHandler
    from chuk_mcp.protocol.types.info import ServerInfo
    from chuk_mcp.protocol.types.capabilities import ServerCapabilities
    from chuk_mcp.protocol.messages.json_rpc_message import JSONRPCRequest, JSONRPCNotification

    clock = _Clock(scn["t0"])
    fu = FakeUUID(scn["uuid_seed"])
    st = {"viol": [], "ids": [], "model": {}, "log": []}
    probes = {}

    def probe(k):
        probes[k] = probes.get(k, 0) + 1

    def V(cls, sig, msg):
        if len(st["viol"]) < 1:  # first divergence only: later ones are consequences
            st["viol"].append({"cls": f"C19/{cls}", "sig": f"C19/{cls}:{sig}", "msg": msg})

    async def main(sim):
        handler = ProtocolHandler(ServerInfo(name="sim", version="1"), ServerCapabilities())
        mgr = handler.session_manager
        model = st["model"]  # id -> dict(client_info, version, created, last, meta)
        ids = st["ids"]      # every id ever issued, in order
        inflight = [0]

        async def slow(message, session_id):
            inflight[0] += 1
            try:
                await anyio.sleep(ticks(message.params["sleep"]))
            finally:
                inflight[0] -= 1
            return handler.create_response(message.id, {"slow": True}), None

        handler.register_method("slow", slow)

        def pick(which):
            if which < 0 or not ids:
                return "no-such-session-" + str(which)
            return ids[which % len(ids)]

        def check_state(after):
            listing = mgr.list_sessions()
            if set(listing) != set(model):
                V("state", "key-set-differs", f"after {after}: store has {sorted(listing)[:4]}.. ({len(listing)}), model has {len(model)}: "
                                              f"extra={sorted(set(listing) - set(model))[:3]} missing={sorted(set(model) - set(listing))[:3]}")
                return
            if mgr.get_session_count() != len(model):
                V("state", "count-differs", f"after {after}: count {mgr.get_session_count()} != {len(model)}")
            for sid, rec in model.items():
                s = listing[sid]
                got = (s.session_id, s.client_info, s.protocol_version, s.created_at, s.last_activity, s.metadata)
                exp = (sid, rec["info"], rec["version"], rec["created"], rec["last"], rec["meta"])
                if got != exp:
                    field = next(n for n, a, b in zip(("session_id", "client_info", "protocol_version", "created_at", "last_activity", "metadata"), got, exp) if a != b)
                    V("state", "record-differs:" + field, f"after {after}: session {sid[:8]} {field}: store={got!r:.200} model={exp!r:.200}")
                    return

        async with anyio.create_task_group() as tg:
            for k, op in enumerate(scn["ops"]):
                try:
                    o = op["op"]
                    st["log"].append((k, o, clock.now))
                    if inflight[0]:
                        probe("slow_handler_overlapped")
                    if o == "create":
                        sid = mgr.create_session(copy.deepcopy(op["info"]), op["version"], copy.deepcopy(op["meta"]))
                        if sid in ids:
                            V("ids", "duplicate-id", f"create_session returned an id already issued: {sid}")
                        if not isinstance(sid, str) or not sid:
                            V("ids", "bad-id", f"create_session returned {sid!r}")
                        ids.append(sid)
                        model[sid] = {"info": op["info"], "version": op["version"], "created": clock.now, "last": clock.now, "meta": op["meta"] or {}}
                    elif o == "get":
                        sid = pick(op["which"])
                        s = mgr.get_session(sid)
                        if (s is None) != (sid not in model):
                            V("get", "presence", f"get_session({sid[:12]}) -> {s!r:.100}, model has it: {sid in model}")
                    elif o == "update":
                        sid = pick(op["which"])
                        r = mgr.update_activity(sid)
                        if r is not (sid in model):
                            V("update", "return", f"update_activity({sid[:12]}) -> {r!r}, model has it: {sid in model}")
                        if sid in model:
                            model[sid]["last"] = clock.now
                    elif o == "delete":
                        sid = pick(op["which"])
                        r = mgr.delete_session(sid)
                        if r is not (sid in model):
                            V("delete", "return", f"delete_session({sid[:12]}) -> {r!r}, model has it: {sid in model}")
                        model.pop(sid, None)
                    elif o == "cleanup":
                        ma = op["max_age"]
                        limit = 3600 if ma is None else ma
                        idle = {sid: clock.now - rec["last"] for sid, rec in model.items()}
                        exp_gone = [sid for sid, d in idle.items() if d > limit]
                        for d in idle.values():
                            if d == limit:
                                probe("idle_exactly_max_age")
                            elif 0 < d - limit <= 1:
                                probe("idle_just_over_max_age")
                            elif 0 < limit - d <= 1:
                                probe("idle_just_under_max_age")
                        r = mgr.cleanup_expired() if ma is None else mgr.cleanup_expired(ma)
                        if exp_gone and len(exp_gone) < len(model):
                            probe("cleanup_removed_some_kept_some")
                        if r != len(exp_gone):
                            V("cleanup", "count", f"cleanup_expired({ma}) -> {r}, model expires {len(exp_gone)} (idle times {sorted(idle.values())[:6]}, limit {limit})")
                        for sid in exp_gone:
                            del model[sid]
                    elif o == "list_mutate":
                        listing = mgr.list_sessions()
                        probe("listing_mutated")
                        if op["how"] == "add":
                            listing["intruder"] = None
                        elif op["how"] == "remove" and listing:
                            listing.pop(sorted(listing)[0])
                        elif op["how"] == "clear":
                            listing.clear()
                        elif op["how"] == "replace" and listing:
                            listing[sorted(listing)[0]] = None
                    elif o == "reseed_random":
                        import random as _global_random
                        _global_random.seed(op["seed"])
                        probe("process_wide_random_reseeded")
                    elif o == "clear":
                        r = mgr.clear_all_sessions()
                        if r != len(model):
                            V("clear", "count", f"clear_all_sessions -> {r}, model had {len(model)}")
                        model.clear()
                    elif o == "count":
                        if mgr.get_session_count() != len(model):
                            V("state", "count-differs", f"count {mgr.get_session_count()} != {len(model)}")
                    elif o == "initialize":
                        params = {"capabilities": {}}
                        info_val = op["info"]
                        if isinstance(info_val, str):
                            # "NULL"/"STR"/"LIST": a clientInfo that is no JSON object (the handshake goes through all the same)
                            info_val = {"NULL": None, "STR": "just-a-string", "LIST": ["n", 1]}[info_val]
                        if op["info"] is not None:
                            params["clientInfo"] = copy.deepcopy(info_val)
                        if op["version"] is not None:
                            params["protocolVersion"] = op["version"]
                        before = set(mgr.list_sessions())
                        existing = pick(op["sid"]) if op["sid"] is not None else None
                        if existing in model:
                            model[existing]["last"] = clock.now  # dispatch with a known session id counts as activity
                        if op["version"] is not None and op["version"] not in VERSIONS:
                            probe("initialize_with_unsupported_version")
                        resp, new_sid = await handler.handle_message(JSONRPCRequest(id=f"i{k}", method="initialize", params=params), existing)
                        after = set(mgr.list_sessions())
                        added = after - before
                        ok_resp = resp is not None and getattr(resp, "result", None) is not None
                        if not ok_resp:
                            V("initialize", "no-result", f"initialize answered {resp!r:.150}")
                        elif len(added) != 1 or new_sid not in added:
                            V("initialize", "sessions-added", f"a successful initialize added {len(added)} sessions (returned id {new_sid!r})")
                        else:
                            if new_sid in ids:
                                V("ids", "duplicate-id", f"initialize returned an id already issued: {new_sid}")
                            ids.append(new_sid)
                            model[new_sid] = {"info": info_val if op["info"] is not None else {}, "version": resp.result.get("protocolVersion"),
                                              "created": clock.now, "last": clock.now, "meta": {}}
                    elif o == "request":
                        sid = pick(op["which"])
                        if sid not in model:
                            probe("request_with_unknown_session")
                        else:
                            model[sid]["last"] = clock.now
                        cls = JSONRPCNotification if op["notification"] else JSONRPCRequest
                        kw = {} if op["notification"] else {"id": k}
                        msg = cls(method=op["method"], params={"sleep": op["sleep"]}, **kw)
                        n_before = len(mgr.list_sessions())

                        async def run(msg=msg, sid=sid):
                            try:
                                await handler.handle_message(msg, sid)
                            except Exception:
                                pass  # dispatch robustness is C08's business

                        if op["method"] == "slow":
                            tg.start_soon(run, name=f"slow-{k}")
                            await anyio.sleep(0)
                        else:
                            await run()
                        if len(mgr.list_sessions()) != n_before:
                            V("request", "session-count-changed", "dispatching a request changed the number of sessions")
                    elif o == "clock":
                        how = op["how"]
                        if how == "to_boundary" and ids:
                            sid = pick(op["which"])
                            if sid in model:
                                clock.now = model[sid]["last"] + op["max_age"] + op["eps"]
                                if op["max_age"] + op["eps"] < 0:
                                    probe("clock_went_backwards")
                        elif how == "advance":
                            clock.now += op["dt"]
                            await anyio.sleep(min(op["dt"], 3.0))
                        elif how == "back":
                            clock.now -= op["dt"]
                            probe("clock_went_backwards")
                        elif how == "jump":
                            clock.now += 86400 * 365
                    check_state(f"op#{k} {o}")
                except Exception as e_op:  # noqa
                    # a session-store operation (or the dispatch around it) raised: the store no longer behaves like a map
                    V("operation-raised", f"{op['op']}:{type(e_op).__name__}", f"op#{k} {op['op']} raised {type(e_op).__name__}: {str(e_op)[:120]}")
        st["final"] = len(model)

    import random as _global_random
    _saved_random_state = _global_random.getstate()
    with patched((memmod, "time", clock), (_uuid, "uuid4", fu)):
        try:
            info = run_sim(main, max_steps=500_000, max_vtime=5000.0)
        finally:
            _global_random.setstate(_saved_random_state)
    sim = info.sim
    out = {"violations": st["viol"], "digest": sim.digest(), "isig": "", "faults": dict(sim.faults),
           "probes": probes, "vtime": info.vtime, "steps": info.steps, "harness": list(sim.harness_errors),
           "nontrivial": False, "history": None}
    if info.deadlock or info.limit or info.exc is not None:
        out["harness"].append(f"run did not complete: deadlock={info.deadlock} limit={info.limit} exc={info.exc!r}")
        return out
    import hashlib
    out["isig"] = hashlib.blake2b(repr([(o, ) for (_k, o, _t) in st["log"]]).encode() + repr(sorted(probes)).encode(), digest_size=8).hexdigest()
    out["digest"] = hashlib.sha256((sim.digest() + repr(st["log"]) + repr(sorted(st["model"].items()))).encode()).hexdigest()[:16]
    out["nontrivial"] = bool(probes.get("idle_exactly_max_age") or probes.get("idle_just_over_max_age") or probes.get("idle_just_under_max_age")
                             or probes.get("slow_handler_overlapped") or probes.get("clock_went_backwards"))
    for k in ("clock_went_backwards",):
        if probes.get(k):
            out["faults"]["clock_skew_backwards"] = probes[k]
    out["history"] = {"ops": [(k, o, t) for (k, o, t) in st["log"]][:40], "sessions_at_end": st.get("final"), "ids_issued": len(st["ids"])}
    return out
