"""C05 - stdio inbound framing is independent of how the byte stream is chunked.

SUT: real StdioClient (_stdout_reader, _process_message_data, _route_message) on a FakeProcess.
Environment: the child writes a generated NDJSON stream (valid messages + junk lines, LF/CRLF,
ASCII..4-byte UTF-8, U+0085/2028/2029, escaped newlines) which the pipe model cuts into pieces
(short reads) at generated / targeted / systematically swept positions, in timed bursts.
Oracle: reference NDJSON splitter + independent JSON-RPC 2.0 envelope grammar.
"""
from __future__ import annotations

import copy
import importlib
import json
import random

import anyio

from sim.loop import run_sim, ticks
from sim.streams import patched
from sim.fakes.process import ProcessFactory

ID = "C05"
LEVEL = "exploration"
RULE = ("scenario = NDJSON byte stream of 1..12 lines (valid messages and junk of each class) x cut positions (seeded, 1-byte, "
        "targeted inside UTF-8 sequences / CRLF / after LF, plus a systematic sweep of every single cut of fixed base streams) x burst timing; "
        "non-trivial = at least one cut fell strictly inside a line, or a junk line preceded a valid one")
PROBES = ["junk_lines_while_child_never_reads_stdin", "child_half_closed_and_client_wrote", "consumer_listens_to_notifications_only", "child_exited_with_unread_output", "earlier_session_ended_mid_line", "legacy_request_stream_registered", "legacy_request_stream_abandoned", "burst_over_100_lines_in_one_read", "cut_inside_utf8_sequence", "cut_inside_crlf", "cut_right_after_lf", "junk_before_valid", "one_byte_chunks",
          "line_separator_chars_in_payload"]
PROBES_THOROUGH = ["line_of_several_mib", "read_capped_at_max_bytes"]
TIERS = {"quick": {"runs": 15000, "wall": 45.0}, "thorough": {"runs": 400000, "wall": 560.0}}
ASSUMPTIONS = [
    "receive() returns exactly one piece the child wrote (the reader is at least as fast as the writer): every such schedule is realisable by a real pipe",
    "expected messages = lines that are valid UTF-8, valid JSON and satisfy an independent JSON-RPC 2.0 envelope grammar; JSON arrays are left to C13",
    "real kernel pipe behaviour is modelled, not observed",
]
STUB = ["child process and its pipes: FakeProcess (short reads are generated, not produced by a kernel)"]

TEXTS = ["plain", "café", "€100", "smile \U0001F600!", "nel\u0085x", "ls ps ", "esc\\n\\r", "tab\there",
         "éééé", "\U0001F600\U0001F601", "q\"uote", "zero\u0000nul", "mix é€\U0001F600 "]
JUNK = ["not_json", "scalar_int", "scalar_str", "scalar_null", "scalar_true", "empty", "spaces", "no_envelope", "wrong_version",
        "missing_jsonrpc", "id_only", "both_result_error", "error_no_code", "error_code_str", "id_null_response", "id_float", "id_bool",
        "id_list", "method_int", "invalid_utf8", "truncated_json", "params_scalar"]


def _junk_text(kind, rng):
    t = rng.choice(TEXTS)
    j = lambda o: json.dumps(o, ensure_ascii=False)
    return {
        "not_json": lambda: "hello " + t.replace("\\", ""),
        "scalar_int": lambda: "12345",
        "scalar_str": lambda: j(t),
        "scalar_null": lambda: "null",
        "scalar_true": lambda: "true",
        "empty": lambda: "",
        "spaces": lambda: "   \t ",
        "no_envelope": lambda: j({"foo": 1, "t": t}),
        "wrong_version": lambda: j({"jsonrpc": "1.0", "method": "m/x", "params": {"t": t}}),
        "missing_jsonrpc": lambda: j({"method": "m/x", "params": {"t": t}}),
        "id_only": lambda: j({"jsonrpc": "2.0", "id": 5}),
        "both_result_error": lambda: j({"jsonrpc": "2.0", "id": 6, "result": {"t": t}, "error": {"code": 1, "message": "m"}}),
        "error_no_code": lambda: j({"jsonrpc": "2.0", "id": 7, "error": {"message": "m"}}),
        "error_code_str": lambda: j({"jsonrpc": "2.0", "id": 7, "error": {"code": "x", "message": "m"}}),
        "id_null_response": lambda: j({"jsonrpc": "2.0", "id": None, "result": {"t": t}}),
        "id_float": lambda: j({"jsonrpc": "2.0", "id": 1.5, "result": {"t": t}}),
        "id_bool": lambda: j({"jsonrpc": "2.0", "id": True, "method": "m"}),
        "id_list": lambda: j({"jsonrpc": "2.0", "id": [1], "result": {}}),
        "method_int": lambda: j({"jsonrpc": "2.0", "id": 9, "method": 5}),
        "truncated_json": lambda: j({"jsonrpc": "2.0", "id": 10, "result": {"t": t}})[:-3],
        "params_scalar": lambda: j({"jsonrpc": "2.0", "id": 11, "method": "m", "params": 5}),
    }[kind]()


def _gen_lines(rng, n, junk_rate):
    lines = []
    nid = 0
    for _ in range(n):
        term = "\r\n" if rng.random() < 0.3 else "\n"
        if rng.random() < junk_rate:
            kind = rng.choice(JUNK)
            if kind == "invalid_utf8":
                lines.append({"kind": "junk:invalid_utf8", "hex": rng.choice(["fffe", "c3", "e282", "f09f98", "7b22c328227d", "80"]), "term": term})
            else:
                lines.append({"kind": "junk:" + kind, "text": _junk_text(kind, rng), "term": term})
            continue
        t = rng.choice(TEXTS)
        nid += 1
        mid = rng.choice([nid, nid, f"s{nid}", f"{nid}", 0, -nid, 2 ** 53 + nid])
        pad = None
        if rng.random() < 0.06:
            # legal strings that begin or end with white space / separator-like characters: they are part of the value
            pad = rng.choice([" ", "\n", "\u2028", "\u0085", "\t", "\u2029"])
            mid = rng.choice([f"req-{nid}" + pad, pad + f"e{nid}"])
        k = rng.choice(["request", "response", "error", "notification", "notification"])
        if k == "request":
            o = {"jsonrpc": "2.0", "id": mid, "method": "sampling/createMessage", "params": {"text": t, "n": [1, None, {"k": t}]}}
        elif k == "response":
            o = {"jsonrpc": "2.0", "id": mid, "result": {"content": [{"type": "text", "text": t}], "nested": {"null": None}}}
        elif k == "error":
            o = {"jsonrpc": "2.0", "id": mid, "error": {"code": -32000 - nid, "message": t, "data": {"d": t}}}
        else:
            o = {"jsonrpc": "2.0", "method": "notifications/message", "params": {"level": "info", "data": t}}
            if rng.random() < 0.2:
                o = {"jsonrpc": "2.0", "method": "notifications/tools/list_changed"}
            if pad is not None:
                o = {"jsonrpc": "2.0", "method": "notifications/progress" + pad, "params": {"key": 1, "key" + pad: 2, pad + "key": 3}}
        txt = json.dumps(o, ensure_ascii=rng.random() < 0.15, separators=rng.choice([(",", ":"), (", ", ": ")]))
        if rng.random() < 0.1:
            txt = "  " + txt + " \t"
        lines.append({"kind": k, "text": txt, "term": term})
    return lines


def stream_bytes(lines) -> bytes:
    out = bytearray()
    for ln in lines:
        if "giant" in ln:
            out += giant_text(ln["giant"]).encode("utf-8")
        else:
            out += bytes.fromhex(ln["hex"]) if "hex" in ln else ln["text"].encode("utf-8")
        out += ln["term"].encode()
    return bytes(out)


def giant_text(g) -> str:
    """one legal notification line of exactly g['bytes'] UTF-8 bytes (kept as a recipe so scenarios and replay files stay small)"""
    head, tail = '{"jsonrpc":"2.0","method":"notifications/message","params":{"data":"', '"}}'
    room = g["bytes"] - len(head) - len(tail)
    ch = g.get("ch", "x")
    k = len(ch.encode("utf-8"))
    return head + ch * (room // k) + "x" * (room % k) + tail


def _targeted_cuts(data: bytes):
    """positions inside multi-byte sequences, inside CRLF, right after LF."""
    inside_utf8, inside_crlf, after_lf = [], [], []
    for i in range(1, len(data)):
        if (data[i] & 0xC0) == 0x80:
            inside_utf8.append(i)
        if data[i - 1] == 0x0D and data[i] == 0x0A:
            inside_crlf.append(i)
        if data[i - 1] == 0x0A:
            after_lf.append(i)
    return inside_utf8, inside_crlf, after_lf


def generate(rng: random.Random, tier: str) -> dict:
    big = tier == "thorough"
    n = rng.choice([1, 2, 3, 4, 5, 8, 12]) if big else rng.choice([1, 2, 2, 3, 4, 6])
    lines = _gen_lines(rng, n, rng.choice([0.0, 0.2, 0.4, 0.6]))
    if big and rng.random() < 0.02:
        # a >64 KiB line: receive(65536) must split inside a character somewhere
        filler = rng.choice(["é", "€", "\U0001F600"]) * rng.choice([30000, 40000])
        lines.insert(rng.randrange(0, len(lines) + 1), {"kind": "notification", "term": "\n", "text": json.dumps(
            {"jsonrpc": "2.0", "method": "notifications/message", "params": {"data": "x" * rng.randrange(0, 4) + filler}}, ensure_ascii=False)})
    if rng.random() < (0.006 if big else 0.003):
        # a legal line of several MiB (just under / over 8 MiB, 4 MiB, 1 MiB), followed by ordinary lines in the same reads
        lines.insert(rng.randrange(0, len(lines) + 1), {"kind": "notification", "term": "\n",
                                                        "giant": {"bytes": rng.choice([2 ** 23 - 100, 2 ** 23 - 100, 2 ** 23 + 4096, 2 ** 22, 2 ** 20]), "ch": rng.choice(["x", "é", "\U0001F600"])}})
    burst = 0
    if rng.random() < (0.04 if big else 0.02):
        # more lines than the read stream buffers (100), all available to a single read
        burst = rng.choice([120, 250, 400])
        at = rng.randrange(0, len(lines) + 1)
        lines[at:at] = [{"kind": "notification", "term": "\n", "text": json.dumps(
            {"jsonrpc": "2.0", "method": "notifications/message", "params": {"seq": q}})} for q in range(burst)]
    data = stream_bytes(lines)
    L = len(data)
    strategy = rng.choice(["whole", "random", "random", "one_byte", "targeted", "targeted", "per_line"]) if not burst else rng.choice(["whole", "whole", "random"])
    if any("giant" in ln for ln in lines):
        strategy = rng.choice(["whole", "whole", "random", "per_line"])
    cuts = []
    if strategy == "random":
        cuts = sorted(set(rng.randrange(1, L) for _ in range(rng.choice([1, 2, 3, 5, 10])))) if L > 1 else []
    elif strategy == "one_byte":
        if L <= 400:
            cuts = list(range(1, L))
        else:
            s0 = rng.randrange(1, L - 300)
            cuts = list(range(s0, s0 + 300))
    elif strategy == "targeted":
        u, c, a = _targeted_cuts(data)
        pool = []
        if u:
            pool += rng.sample(u, min(len(u), rng.choice([1, 2, 4])))
        if c and rng.random() < 0.6:
            pool += rng.sample(c, min(len(c), 2))
        if a and rng.random() < 0.5:
            pool += rng.sample(a, min(len(a), 2))
        cuts = sorted(set(pool))
    elif strategy == "per_line":
        _, _, a = _targeted_cuts(data)
        cuts = a
    gap = rng.choice([0, 0, 1, 5, 100])
    legacy = []
    if rng.random() < 0.25:
        for i, ln in enumerate(lines):
            if ln["kind"] in ("response", "error") and rng.random() < 0.6:
                legacy.append({"line": i, "close": rng.random() < 0.5})
    exit_after = rng.choice([None, None, None, None, 0, 0, 1, 30])   # the child exits right after its last write (output may still be unread)
    prelude = None
    if rng.random() < 0.1:
        # an earlier session over the SAME client object that ended in the middle of a line
        prelude = {"pending_streams": rng.random() < 0.5, "tail": rng.choice(['{"jsonrpc":"2.0","method":"notifications/mess', '{"jsonrpc":"2.0","id":1,"result":{"t":"\u00e9', "garbage without newline"])}
    # the consumer only listens to notifications: it closes the main read stream right after entering, the session stays open
    close_read = bool(burst) and rng.random() < 0.5
    pv = rng.choice([None, None, "2025-06-18", "2025-03-26"])
    # the child is a pure emitter: it never takes anything from its stdin (whatever the client writes there piles up)
    stdin_stalled = pv != "2025-06-18" and rng.random() < 0.15
    # the child closes its own stdin early but keeps talking; the client writes something after that
    half_close = None
    if rng.random() < 0.1:
        half_close = {"child_closes_stdin_at": rng.choice([0, 1, 5]), "client_sends_at": rng.choice([2, 6, 20]), "n": rng.choice([1, 3])}
        gap = max(gap, rng.choice([3, 10]))
    # the child prints an unterminated progress indicator on its stderr right before it starts talking on stdout
    stderr_noise = rng.choice(["Loading model 50%...", "WARN: slow start", "{"]) if rng.random() < 0.1 else None
    return {"v": 1, "stderr_noise": stderr_noise, "stdin_stalled": stdin_stalled, "half_close": half_close, "close_read": close_read, "exit_after": exit_after, "prelude": prelude, "legacy_streams": legacy, "lines": lines, "cuts": cuts, "gap": gap, "hops": rng.choice([0, 0, 2]),
            "protocol_version": pv}


_BASE_SEEDS = [11, 23, 37, 41]


def systematic(tier: str):
    """Every single cut position (and, thorough, every pair on short streams) of fixed base streams."""
    out = []
    for bs in _BASE_SEEDS:
        rng = random.Random(bs)
        lines = _gen_lines(rng, 3, 0.34)
        # make sure the base has multi-byte text, CRLF and a junk line
        lines[0]["term"] = "\r\n"
        data = stream_bytes(lines)
        for i in range(1, len(data)):
            out.append({"v": 1, "lines": lines, "cuts": [i], "gap": 0, "hops": 0, "protocol_version": None})
    if tier == "thorough":
        rng = random.Random(5)
        lines = _gen_lines(rng, 2, 0.0)
        lines[0]["text"] = json.dumps({"jsonrpc": "2.0", "method": "n/x", "params": {"d": "é€\U0001F600"}}, ensure_ascii=False)
        lines[0]["term"] = "\r\n"
        lines[1]["text"] = json.dumps({"jsonrpc": "2.0", "id": 1, "result": {"t": " \U0001F600"}}, ensure_ascii=False)
        data = stream_bytes(lines)
        for i in range(1, len(data)):
            for j in range(i + 1, len(data)):
                out.append({"v": 1, "lines": lines, "cuts": [i, j], "gap": 0, "hops": 0, "protocol_version": None})
    return out


SHRINK_LISTS = ["lines", "cuts"]


def simplify(scn):
    if scn.get("stderr_noise"):
        c = copy.deepcopy(scn); c["stderr_noise"] = None; yield c
    if scn.get("stdin_stalled"):
        c = copy.deepcopy(scn); c["stdin_stalled"] = False; yield c
    if scn.get("half_close"):
        c = copy.deepcopy(scn); c["half_close"] = None; yield c
    if scn.get("close_read"):
        c = copy.deepcopy(scn); c["close_read"] = False; yield c
    if scn.get("prelude"):
        c = copy.deepcopy(scn); c["prelude"] = None; yield c
    if scn.get("exit_after") is not None:
        c = copy.deepcopy(scn); c["exit_after"] = None; yield c
    if scn.get("legacy_streams"):
        c = copy.deepcopy(scn); c["legacy_streams"] = []; yield c
    if scn["gap"]:
        c = copy.deepcopy(scn); c["gap"] = 0; yield c
    if scn["hops"]:
        c = copy.deepcopy(scn); c["hops"] = 0; yield c
    if scn["protocol_version"]:
        c = copy.deepcopy(scn); c["protocol_version"] = None; yield c
    for i, ln in enumerate(scn["lines"]):
        if ln["term"] != "\n":
            c = copy.deepcopy(scn); c["lines"][i]["term"] = "\n"; yield c


# ---- independent JSON-RPC 2.0 envelope grammar -----------------------------------------

def _valid_id(x):
    return (isinstance(x, int) and not isinstance(x, bool)) or isinstance(x, str)


def grammar_ok(o) -> bool:
    if not isinstance(o, dict) or o.get("jsonrpc") != "2.0":
        return False
    has_m, has_id, has_r, has_e = "method" in o, "id" in o, "result" in o, "error" in o
    if has_m:
        if not isinstance(o["method"], str) or has_r or has_e:
            return False
        if has_id and not _valid_id(o["id"]):
            return False
        if "params" in o and not isinstance(o["params"], (dict, list)):
            return False
        return True
    if not has_id or not _valid_id(o["id"]):
        return False
    if has_r == has_e:
        return False
    if has_e:
        e = o["error"]
        return isinstance(e, dict) and isinstance(e.get("code"), int) and not isinstance(e.get("code"), bool) and isinstance(e.get("message"), str)
    return True


def reference(data: bytes):
    """-> list of (line_index, obj) the read stream must deliver, in order."""
    exp = []
    for idx, raw in enumerate(data.split(b"\n")[:-1]):
        raw = raw.strip(b" \t\r")
        if not raw:
            continue
        try:
            txt = raw.decode("utf-8")
            o = json.loads(txt)
        except Exception:
            continue
        if isinstance(o, list):
            continue
        if grammar_ok(o):
            exp.append((idx, o))
    return exp


def _norm(msg):
    if hasattr(msg, "model_dump"):
        d = msg.model_dump()
        return {k: v for k, v in d.items() if v is not None}
    return msg


def execute(scn: dict) -> dict:
    stdio = importlib.import_module("chuk_mcp.transports.stdio.stdio_client")
    from chuk_mcp.transports.stdio.parameters import StdioParameters

    data = stream_bytes(scn["lines"])
    cuts = [c for c in sorted(set(scn["cuts"])) if 0 < c < len(data)]
    pieces = [data[a:b] for a, b in zip([0] + cuts, cuts + [len(data)])]
    st = {"read": [], "notif": []}

    async def main(sim):
        def on_start(child):
            if scn.get("prelude") and not st.get("prelude_done"):
                # first session: one complete line, then a partial line, then silence until the context is left
                child.write_stdout([b'{"jsonrpc":"2.0","method":"notifications/message","params":{"data":"prelude"}}\n' + scn["prelude"]["tail"].encode("utf-8")[:60]])
                return
            t = ticks(5) if scn.get("close_read") else 0.0
            if scn.get("stderr_noise"):
                sim.at(sim.now() + t, child.write_stderr, scn["stderr_noise"].encode(), tie=0, hops=0)
                sim.fault("child_wrote_unterminated_text_to_stderr")
            for i, p in enumerate(pieces):
                sim.at(sim.now() + t, child.write_stdout, [p], tie=0, hops=scn["hops"])
                t += ticks(scn["gap"])
            st["t_last"] = sim.now() + t
            if scn.get("exit_after") is not None:
                # the child is done and exits; whatever it wrote stays readable in the pipe until EOF
                sim.at(sim.now() + t + ticks(scn["exit_after"]), child.exit, 0, tie=2, hops=scn["hops"])
                sim.fault("child_exits_with_unread_output")

        stalled = bool(scn.get("stdin_stalled"))
        factory = ProcessFactory(sim, lambda idx, argv, env: {"on_start": on_start, "read_mode": "never" if stalled else "eager",
                                                              "capacity": 64 if stalled else 65536})
        if stalled:
            sim.fault("child_never_reads_its_stdin")
        st["factory"] = factory
        with patched((anyio, "open_process", factory)):
            client = stdio.StdioClient(StdioParameters(command="sim-child", args=[]))
            if scn["protocol_version"]:
                client.set_protocol_version(scn["protocol_version"])
            if scn.get("prelude"):
                async with client:
                    if scn["prelude"].get("pending_streams"):
                        # requests of that earlier session that were still waiting for their answers (per-request streams registered,
                        # never answered) when it ended; the new session's server happens to use the same ids
                        for ln_ in scn["lines"]:
                            if ln_["kind"] in ("response", "error") and "text" in ln_:
                                try:
                                    client.new_request_stream(str(json.loads(ln_["text"]).get("id")))
                                except Exception:
                                    pass
                        sim.probe("earlier_session_left_per_request_streams_pending")
                    await anyio.sleep(0.05)
                st["prelude_done"] = True
                sim.probe("earlier_session_ended_mid_line")
            async with client:
                read_stream, _write = client.get_streams()
                # legacy API: a one-shot per-request stream registered for some response ids; it may be abandoned (closed)
                # before the response arrives - the main read stream must deliver the response either way
                st["legacy"] = []
                for lg in scn.get("legacy_streams", []):
                    if lg["line"] < len(scn["lines"]) and "text" in scn["lines"][lg["line"]]:
                        try:
                            rid_ = json.loads(scn["lines"][lg["line"]]["text"]).get("id")
                        except Exception:
                            continue
                        rs = client.new_request_stream(str(rid_))
                        if lg["close"]:
                            rs.close()
                        st["legacy"].append((rid_, lg["close"], rs))

                async def drain(stream, into):
                    async for m in stream:
                        into.append((sim.rec("client", "got", None), m))

                hc = scn.get("half_close")
                if hc:
                    child_ = factory.children[-1]
                    sim.at(sim.now() + ticks(hc["child_closes_stdin_at"]), child_.close_stdin_child_side, tie=2)

                    def client_writes():
                        for q in range(hc["n"]):
                            try:
                                _write.send_nowait({"jsonrpc": "2.0", "method": "notifications/progress", "params": {"progressToken": "t", "progress": q}})
                            except Exception:
                                pass
                        sim.fault("client_wrote_after_child_closed_its_stdin")
                    sim.at(sim.now() + ticks(hc["client_sends_at"]), client_writes, tie=2)
                async with anyio.create_task_group() as tg:
                    if scn.get("close_read"):
                        read_stream.close()
                        sim.fault("consumer_closed_main_read_stream")
                    else:
                        tg.start_soon(drain, read_stream, st["read"], name="drain-read")
                    tg.start_soon(drain, client.notifications, st["notif"], name="drain-notif")
                    await anyio.sleep(st["t_last"] - sim.now() + 1.0)
                    st["reader_alive_hint"] = True
                    tg.cancel_scope.cancel()

    info = run_sim(main, max_steps=400_000, max_vtime=2000.0)
    sim = info.sim
    out = {"violations": [], "digest": sim.digest(), "isig": sim.isig(), "faults": dict(sim.faults),
           "probes": dict(sim.probes), "vtime": info.vtime, "steps": info.steps, "harness": list(sim.harness_errors),
           "nontrivial": False, "history": None}
    if info.deadlock or info.limit or info.exc is not None:
        out["harness"].append(f"run did not complete: deadlock={info.deadlock} limit={info.limit} exc={info.exc!r}")
        return out

    def V(cls, sig, msg):
        out["violations"].append({"cls": f"C05/{cls}", "sig": f"C05/{cls}:{sig}", "msg": msg})

    def probe(k, n=1):
        out["probes"][k] = out["probes"].get(k, 0) + n

    exp = reference(data)
    got = [_norm(m) for (_e, m) in st["read"]]
    gotn = [_norm(m) for (_e, m) in st["notif"]]
    expn = [o for (_i, o) in exp if "id" not in o]
    kinds = [ln["kind"] for ln in scn["lines"]]
    # probes on the cut placement
    u, c, a = _targeted_cuts(data)
    su, sc_, sa = set(u), set(c), set(a)
    for ct in cuts:
        if ct in su:
            probe("cut_inside_utf8_sequence"); out["faults"]["short_read_inside_utf8"] = out["faults"].get("short_read_inside_utf8", 0) + 1
        if ct in sc_:
            probe("cut_inside_crlf")
        if ct in sa:
            probe("cut_right_after_lf")
    if cuts:
        out["faults"]["short_read"] = out["faults"].get("short_read", 0) + len(cuts)
    if len(cuts) >= len(data) - 1 and len(data) > 2:
        probe("one_byte_chunks")
    if scn.get("exit_after") is not None:
        probe("child_exited_with_unread_output")
    for (_rid, closed_, _rs) in st.get("legacy", []):
        probe("legacy_request_stream_abandoned" if closed_ else "legacy_request_stream_registered")
    if len(scn["lines"]) > 110 and len(cuts) <= 12:
        probe("burst_over_100_lines_in_one_read")
    if any(ch in data.decode("utf-8", "ignore") for ch in ("\u0085", " ", " ")):
        probe("line_separator_chars_in_payload")
    first_valid = min((i for (i, _o) in exp), default=None)
    last_valid = max((i for (i, _o) in exp), default=None)
    junk_idx = [i for i, k in enumerate(kinds) if k.startswith("junk")]
    if any(last_valid is not None and j < last_valid for j in junk_idx):
        probe("junk_before_valid"); out["faults"]["junk_line"] = out["faults"].get("junk_line", 0) + len(junk_idx)
    line_starts = {0} | sa
    out["nontrivial"] = any(ct not in line_starts for ct in cuts) or bool(out["probes"].get("junk_before_valid"))

    # ---- compare with the reference -----------------------------------------------
    expo = [o for (_i, o) in exp]

    def compare(stream_name, got_list, exp_list):
        # 1. anything delivered that the reference does not contain at all: an invalid message got through
        rest = []
        pool = list(exp_list)
        for g in got_list:
            if g in pool:
                rest.append(g)
            else:
                src = _which_line(g, scn["lines"])
                V("invalid-delivered", src, f"{stream_name} stream delivered an object that is not a valid JSON-RPC 2.0 message "
                                            f"(source line class {src}): {g!r:.200}")
        # 2. the valid ones: exactly the reference sequence, in order, once each
        if rest != exp_list:
            k = 0
            while k < len(rest) and k < len(exp_list) and rest[k] == exp_list[k]:
                k += 1
            if len(rest) < len(exp_list) and rest == exp_list[:len(rest)]:
                cause = "lost-tail"  # the reader stopped / later lines never arrived
            elif len(rest) > len(exp_list):
                cause = "duplicated"
            elif sorted(map(repr, rest)) == sorted(map(repr, exp_list)):
                cause = "reordered"
            else:
                cause = "lost-or-altered"
            V(stream_name + "-stream", cause, f"{stream_name} stream delivered {len(rest)} valid messages, reference says {len(exp_list)}; "
              f"first difference at #{k}: got={rest[k] if k < len(rest) else None!r:.160} expected={exp_list[k] if k < len(exp_list) else None!r:.160} "
              f"cuts={cuts[:8]} line_kinds={kinds}")

    if scn.get("close_read"):
        probe("consumer_listens_to_notifications_only")
    else:
        compare("read", got, expo)
    compare("notification", gotn, expn)
    if any("giant" in ln for ln in scn["lines"]):
        probe("line_of_several_mib")
    if scn.get("stdin_stalled") and junk_idx:
        probe("junk_lines_while_child_never_reads_stdin")
    if scn.get("half_close"):
        probe("child_half_closed_and_client_wrote")
    out["history"] = {"bytes": len(data), "cuts": cuts[:20], "pieces": len(pieces), "line_kinds": kinds,
                      "expected": len(expo), "delivered": len(got), "expected_notifications": len(expn), "delivered_notifications": len(gotn)}
    return out


def _which_line(msg, lines):
    for ln in lines:
        if "text" in ln:
            try:
                o = json.loads(ln["text"])
            except Exception:
                continue
            if isinstance(o, dict):
                oo = dict(o)
                m = dict(msg) if isinstance(msg, dict) else {}
                # the library fills jsonrpc default
                if all(m.get(k) == v for k, v in oo.items() if v is not None) and ln["kind"].startswith("junk"):
                    return ln["kind"]
    return "unknown"
