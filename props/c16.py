"""C16 - stdio client shutdown is bounded and leaves no child process behind.

SUT: real StdioClient.__aenter__/__aexit__/_terminate_process, stdio_client(), StdioTransport
on a FakeProcess.  Fault space: child behaviour x exit path x moment (systematic product in the
quick tier = fault enumeration; seeded sequences with random parameters on top).
Oracle: bounded virtual exit time, child dead and reaped at quiescence, pending request never
fabricated, unstartable command makes entering raise.
"""
from __future__ import annotations

import asyncio
import copy
import importlib
import json
import random

import anyio

from sim.loop import run_sim, ticks
from sim.streams import patched
from sim.fakes.process import ProcessFactory

ID = "C16"
LEVEL = "fault_enumeration"
RULE = ("systematic product {child behaviour} x {exit path} x {moment} x {entry point} with fixed parameters, plus seeded scenarios with "
        "random latencies/instants/second cancellation; non-trivial = the child misbehaved or the exit was not the plain normal path")
PROBES = ["server_env_asks_for_quiet_logging", "retry_on_same_transport_after_failed_start", "large_messages_queued_at_exit", "requests_parked_behind_full_outgoing_queue_when_child_died", "exit_with_more_unread_output_than_reader_buffers", "child_state_checked_at_instant_of_exit", "client_object_reused", "exit_under_cancel_scope", "exit_under_task_cancel", "exit_under_fail_after", "exit_by_exception", "sigterm_ignored_then_killed",
          "child_already_dead_at_exit", "cancel_landed_inside_aexit", "request_pending_when_child_died", "spawn_failed", "writer_blocked_at_exit",
          "flood_at_exit"]
TIERS = {"quick": {"runs": 20000, "wall": 45.0}, "thorough": {"runs": 1500000, "wall": 560.0}}
ASSUMPTIONS = [
    "real descriptors and /proc state are modelled after asyncio's subprocess transport: the read end of the child's stdout is released when the transport saw EOF (it pauses above 2 x 64 KiB of unread output and then never does) or when the process object is closed (anyio Process.aclose()); the write end goes with the child; kernel-level leaks are out of reach (the one leak this model found was confirmed on a real child)",
    "exit time bound = 2.0 s (two grace periods) + the scenario's modelled SIGTERM/SIGKILL delivery latencies; zero scheduling slack in virtual time",
    "SIGKILL always kills",
]
STUB = ["child process, pipes and signals: FakeProcess"]
SHRINK_LISTS = ["body"]

CHILD_KINDS = ["well_behaved", "exits_early", "exits_after_k", "ignores_sigterm", "never_reads", "floods", "closes_stdout", "closes_stdin",
               "slow_start", "unstartable", "slow_to_die", "floods_then_exits", "never_reads_then_exits"]
EXIT_PATHS = ["normal", "exception", "cancel_scope", "fail_after", "task_cancel"]
MOMENTS = ["before_first", "in_flight", "after_response", "during_aexit"]
ENTRIES = ["stdio_client", "StdioClient", "StdioTransport", "stdio_client_with_initialize"]


def _child_cfg(kind, rng=None):
    r = (lambda a: rng.choice(a)) if rng else (lambda a: a[0])
    c = {"kind": kind, "term_latency": r([1, 0, 10, 200]), "kill_latency": r([1, 0, 5]), "respond_latency": r([5, 1, 50]),
         "eof_exit": True, "eof_exit_latency": r([2, 0, 100, 3000])}
    if kind == "exits_early":
        c["exit_at"] = r([30, 0, 5, 300])
    if kind == "exits_after_k":
        c["exit_after_lines"] = r([1, 2, 3])
    if kind == "ignores_sigterm":
        c["ignore_sigterm"] = True
        c["eof_exit"] = r([False, True])
    if kind == "never_reads":
        c["read_mode"] = "never"
        c["capacity"] = r([64, 1, 4096])
    if kind == "floods":
        c["flood_every"] = r([1, 2, 10])
        c["flood_line_bytes"] = r([8192, 90, 90, 30000])
    if kind == "never_reads_then_exits":
        # never takes anything from its stdin, so the client's outgoing queue backs up; then it dies
        c["read_mode"] = "never"
        c["capacity"] = r([64, 4096])
        c["exit_at"] = r([60, 20, 400])
        c["backlog"] = r([130, 105, 160])
    if kind == "floods_then_exits":
        # writes a burst larger than the client's 100-slot incoming queue, then exits by itself
        c["burst"] = r([400, 101, 150, 99, 190])
        c["burst_line_bytes"] = r([90, 90, 2048])   # 190 x 2 KiB: 100 messages fit the client's queue, the remaining ~180 KiB exceed the reader buffers
        c["burst_at"] = r([2, 0, 10])
        c["exit_at"] = c["burst_at"] + r([1, 0, 5, 50])
    if kind == "closes_stdout":
        c["close_stdout_at"] = r([20, 0, 200])
    if kind == "closes_stdin":
        c["close_stdin_at"] = r([20, 0, 200])
    if kind == "slow_start":
        c["spawn_latency"] = r([300, 50, 2000])
    if kind == "unstartable":
        c["spawn_error"] = r(["FileNotFoundError", "PermissionError", "OSError"])
    if kind == "slow_to_die":
        c["term_latency"] = r([900, 1023, 1024, 1025, 1500])
        c["kill_latency"] = r([10, 900, 1023])
    return c


def _body_for(moment, rng=None):
    r = (lambda a: rng.choice(a)) if rng else (lambda a: a[0])
    if moment == "before_first":
        return []
    if moment == "in_flight":
        return [{"op": "request", "timeout": r([1.0, 0.5, 3.0]), "detach": True}, {"op": "sleep", "t": r([2, 1, 20])}]
    if moment == "after_response":
        return [{"op": "request", "timeout": 1.0}, {"op": "sleep", "t": r([1, 0, 50])}]
    return [{"op": "request", "timeout": 1.0}]  # during_aexit: the exit trigger is placed after the body ended


def _exit_for(path, moment, rng=None):
    r = (lambda a: rng.choice(a)) if rng else (lambda a: a[0])
    e = {"path": path, "tie": r([0, 2]), "hops": r([0, 1, 3])}
    if path in ("cancel_scope", "task_cancel", "fail_after"):
        if moment == "during_aexit":
            e["rel"] = "after_body"
            e["dt"] = r([1, 0, 100, 1023, 1024, 1025, 1500])
        else:
            e["rel"] = "abs"
            e["t"] = {"before_first": r([0, 1, 5]), "in_flight": r([3, 1, 8, 30]), "after_response": r([60, 10, 200])}[moment]
    return e


def systematic(tier: str):
    out = []
    for kind in CHILD_KINDS:
        for path in EXIT_PATHS:
            for moment in MOMENTS:
                if moment == "during_aexit" and path in ("normal", "exception"):
                    continue
                for entry in (ENTRIES if tier == "thorough" or kind in ("well_behaved", "ignores_sigterm") else ENTRIES[:1]):
                    out.append({"v": 1, "entry": entry, "child": _child_cfg(kind), "body": _body_for(moment),
                                "exit": _exit_for(path, moment), "second_cancel": None, "moment": moment})
    return out


def generate(rng: random.Random, tier: str) -> dict:
    kind = rng.choice(CHILD_KINDS)
    path = rng.choice(EXIT_PATHS)
    moment = rng.choice(MOMENTS)
    if moment == "during_aexit" and path in ("normal", "exception"):
        path = rng.choice(["cancel_scope", "task_cancel", "fail_after"])
    body = _body_for(moment, rng)
    if kind == "never_reads_then_exits":
        # more concurrent requests than the outgoing queue holds: the surplus is parked in write_stream.send()
        body = [{"op": "burst_requests", "n": 0, "timeout": rng.choice([0.5, 1.0])}] + body
    if rng.random() < 0.3:
        body = body + [{"op": rng.choice(["request", "notify", "sleep"]), "timeout": 0.5, "t": rng.choice([0, 3, 40])}]
    if rng.random() < 0.12:
        body = body + [{"op": "big_writes", "n": rng.choice([2, 3, 5]), "bytes": rng.choice([70_000, 100_000])}]
    sc = None
    if path == "task_cancel" and rng.random() < 0.25:
        sc = {"dt": rng.choice([0, 1, 100, 1023, 1024, 1500])}
    entry = rng.choice(ENTRIES)
    return {"v": 1, "quiet_env": rng.random() < 0.3, "retry_after_failed_start": rng.random() < 0.5, "entry": entry, "child": _child_cfg(kind, rng), "body": body, "exit": _exit_for(path, moment, rng),
            "second_cancel": sc, "moment": moment,
            # StdioClient objects may be entered again: an earlier (plain) conversation over the same object
            "earlier_conversations": (rng.choice([1, 2]) if entry == "StdioClient" and rng.random() < 0.4 else 0)}


def simplify(scn):
    if scn.get("earlier_conversations"):
        c = copy.deepcopy(scn); c["earlier_conversations"] = 0; yield c
    if scn["second_cancel"]:
        c = copy.deepcopy(scn); c["second_cancel"] = None; yield c
    if scn["entry"] != "stdio_client":
        c = copy.deepcopy(scn); c["entry"] = "stdio_client"; yield c
    e = scn["exit"]
    if e.get("hops"):
        c = copy.deepcopy(scn); c["exit"]["hops"] = 0; yield c
    if e.get("tie"):
        c = copy.deepcopy(scn); c["exit"]["tie"] = 0; yield c
    ch = scn["child"]
    for key, val in (("term_latency", 0), ("kill_latency", 0), ("respond_latency", 1), ("eof_exit_latency", 0)):
        if ch.get(key) != val:
            c = copy.deepcopy(scn); c["child"][key] = val; yield c
    if ch["kind"] != "well_behaved" and ch["kind"] not in ("unstartable",):
        c = copy.deepcopy(scn); c["child"] = _child_cfg("well_behaved"); yield c


class BodyError(Exception):
    pass


def execute(scn: dict) -> dict:
    stdio = importlib.import_module("chuk_mcp.transports.stdio.stdio_client")
    sm = importlib.import_module("chuk_mcp.protocol.messages.send_message")
    from chuk_mcp.transports.stdio.parameters import StdioParameters
    from chuk_mcp.transports.stdio.transport import StdioTransport
    from chuk_mcp.protocol.types.errors import RetryableError, NonRetryableError

    ch = scn["child"]
    ex = scn["exit"]
    st = {"requests": [], "responses_written": [], "entered": False, "enter_exc": None}

    async def main(sim):
        def responder(line: bytes):
            try:
                o = json.loads(line)
            except Exception:
                return []
            if isinstance(o, dict) and "id" in o and o.get("method") == "initialize":
                res = {"jsonrpc": "2.0", "id": o["id"], "result": {"protocolVersion": o["params"]["protocolVersion"], "capabilities": {},
                                                                  "serverInfo": {"name": "sim", "version": "1"}}}
                return [(ticks(ch["respond_latency"]), [json.dumps(res).encode() + b"\n"])]
            if isinstance(o, dict) and "id" in o and "method" in o:
                res = {"jsonrpc": "2.0", "id": o["id"], "result": {"echo": o["method"], "marker": f"r{len(st['responses_written'])}"}}
                st["responses_written"].append(res)
                return [(ticks(ch["respond_latency"]), [json.dumps(res).encode() + b"\n"])]
            return []

        def on_start(child):
            st["child"] = child
            nlines = [0]
            if ch.get("burst"):
                def burst():
                    if child.alive and not child.out_eof:
                        bpad = b"b" * max(0, ch.get("burst_line_bytes", 90) - 80)
                        child.write_stdout([b"".join(b'{"jsonrpc":"2.0","method":"notifications/message","params":{"data":"burst-%d' % q + bpad + b'"}}\n'
                                                     for q in range(ch["burst"]))])
                        sim.fault("child_output_burst_then_exit")
                sim.at(sim.now() + ticks(ch["burst_at"]), burst, tie=0)
            if ch.get("exit_at") is not None:
                sim.at(sim.now() + ticks(ch["exit_at"]), child.exit, 3, tie=2)
            if ch.get("close_stdout_at") is not None:
                sim.at(sim.now() + ticks(ch["close_stdout_at"]), child.close_stdout, tie=2)
            if ch.get("close_stdin_at") is not None:
                sim.at(sim.now() + ticks(ch["close_stdin_at"]), child.close_stdin_child_side, tie=2)
            if ch.get("flood_every"):
                pad = b"f" * max(0, ch.get("flood_line_bytes", 90) - 85)

                def flood():
                    # a real child blocks in write(2) once the pipe (64 KiB) and the parent's reader buffer (2 x 64 KiB) are full
                    if child.alive and not child.out_eof and child.unread_output() < 3 * 65536:
                        child.write_stdout([b'{"jsonrpc":"2.0","method":"notifications/message","params":{"data":"flood' + pad + b'"}}\n'])
                    if child.alive:
                        sim.at(sim.now() + ticks(ch["flood_every"]), flood, tie=2)
                sim.at(sim.now(), flood, tie=2)
            if ch.get("exit_after_lines"):
                orig = child._on_line

                def on_line(line):
                    orig(line)
                    nlines[0] += 1
                    if nlines[0] >= ch["exit_after_lines"]:
                        sim.at(sim.now() + ticks(1), child.exit, 4, tie=2)
                child._on_line = on_line

        def cfg(idx, argv, env):
            return {"read_mode": ch.get("read_mode", "eager"), "capacity": ch.get("capacity", 65536), "responder": responder,
                    "ignore_sigterm": ch.get("ignore_sigterm", False), "term_latency": ticks(ch["term_latency"]),
                    "kill_latency": ticks(ch["kill_latency"]), "exit_on_stdin_eof": ch["eof_exit"],
                    "eof_exit_latency": ticks(ch["eof_exit_latency"]), "spawn_latency": ticks(ch.get("spawn_latency", 0)),
                    "spawn_error": ch.get("spawn_error"), "on_start": on_start}

        factory = ProcessFactory(sim, cfg)
        st["factory"] = factory
        params = StdioParameters(command="sim-child", args=["--x"], env=({"LOG_LEVEL": "ERROR", "PATH": "/usr/bin"} if scn.get("quiet_env") else None))
        scope_box = {}
        loop = asyncio.get_running_loop()

        def fire_exit():
            if st.get("t_exit_end") is not None:
                return  # context already left
            st.setdefault("t_trigger", sim.now())
            st.setdefault("trigger_in_earlier_phase", bool(st.get("earlier_phase")))
            st["trigger_eseq"] = sim.rec("env", "cancel:" + ex["path"], None)
            if st.get("t_body_end") is not None:
                sim.probe("cancel_landed_inside_aexit")
            if ex["path"] == "task_cancel":
                body_task.cancel()
                if scn["second_cancel"]:
                    def second():
                        if st.get("t_exit_end") is None:
                            sim.rec("env", "cancel:second", None)
                            st["second_fired"] = True
                            body_task.cancel()
                    sim.at(sim.now() + ticks(scn["second_cancel"]["dt"]), second, tie=2)
            elif ex["path"] == "fail_after":
                scope_box["scope"].deadline = sim.now()  # the timeout around the context expires now
            else:
                scope_box["scope"].cancel()

        async def one_request(r, w, op):
            rec = {"t": sim.now(), "outcome": None}
            st["requests"].append(rec)
            try:
                res = await sm.send_message(r, w, "ping", None, timeout=op.get("timeout", 1.0))
                rec["outcome"] = ("result", res)
            except BaseException as e:  # noqa
                rec["outcome"] = ("raise", type(e).__name__)
                rec["t_end"] = sim.now()
                rec["child_alive_at_end"] = st["child"].alive if "child" in st else None
                if isinstance(e, (asyncio.CancelledError,)):
                    raise
                return
            rec["t_end"] = sim.now()

        async def inside(r, w):
            st["entered"] = True
            st["t_entered"] = sim.now()
            async with anyio.create_task_group() as tg:
                for op in scn["body"]:
                    if op["op"] == "request":
                        if op.get("detach"):
                            tg.start_soon(one_request, r, w, op, name="detached-request")
                        else:
                            await one_request(r, w, op)
                    elif op["op"] == "burst_requests":
                        for _q in range(ch.get("backlog", 130)):
                            tg.start_soon(one_request, r, w, op, name="detached-request")
                        sim.fault("outgoing_queue_backed_up_then_child_dies")
                        await anyio.sleep(ticks(ch.get("exit_at", 60)) + op["timeout"] + 1.0)
                    elif op["op"] == "big_writes":
                        # several large messages handed to the write stream (they stay queued if the child does not read)
                        for q in range(op["n"]):
                            try:
                                w.send_nowait({"jsonrpc": "2.0", "method": "notifications/message", "params": {"q": q, "pad": "p" * op["bytes"]}})
                            except (anyio.WouldBlock, anyio.ClosedResourceError, anyio.BrokenResourceError):
                                pass
                        sim.probe("large_messages_queued_at_exit")
                        await anyio.sleep(ticks(2))
                    elif op["op"] == "sleep":
                        await anyio.sleep(ticks(op["t"]))
                    elif op["op"] == "notify":
                        try:
                            await w.send({"jsonrpc": "2.0", "method": "notifications/initialized"})
                        except (anyio.ClosedResourceError, anyio.BrokenResourceError):
                            pass
                if ex["path"] == "exception":
                    tg.cancel_scope.cancel()
            if ex["path"] == "exception":
                st["t_body_end"] = sim.now()
                sim.rec("body", "raise", None)
                raise BodyError("body failed")
            st["t_body_end"] = sim.now()
            sim.rec("body", "end", None)
            if ex.get("rel") == "after_body":
                sim.at(sim.now() + ticks(ex["dt"]), fire_exit, tie=ex["tie"], hops=ex["hops"])

        async def ctx():
            if scn["entry"] == "stdio_client":
                async with stdio.stdio_client(params) as (r, w):
                    await inside(r, w)
            elif scn["entry"] == "stdio_client_with_initialize":
                # the handshake runs inside the context manager; a child that never answers makes entering fail after the child was spawned
                async with stdio.stdio_client_with_initialize(params, timeout=1.0) as (r, w, _init):
                    await inside(r, w)
            elif scn["entry"] == "StdioClient":
                client = stdio.StdioClient(params)
                for _n in range(scn.get("earlier_conversations", 0)):
                    # a plain, well-behaved earlier conversation over the same object (own child, normal exit)
                    st["earlier_phase"] = True
                    async with client:
                        r0, w0 = client.get_streams()
                        try:
                            await sm.send_message(r0, w0, "ping", None, timeout=0.5)
                        except Exception:
                            pass
                    st["earlier_phase"] = False
                    sim.probe("client_object_reused")
                async with client:
                    r, w = client.get_streams()
                    await inside(r, w)
            else:
                tr = StdioTransport(params)
                if ch.get("spawn_error") and scn.get("retry_after_failed_start"):
                    # the application retries on the same transport object after the first attempt to start the server failed
                    try:
                        async with tr:
                            st["first_enter"] = "entered"
                    except Exception as e1:  # noqa
                        st["first_enter"] = "raised:" + type(e1).__name__
                    sim.probe("retry_on_same_transport_after_failed_start")
                async with tr:
                    r, w = await tr.get_streams()
                    await inside(r, w)

        async def body():
            try:
                if ex["path"] == "fail_after":
                    # deadline-driven exit: a cancel scope whose deadline is set when the trigger fires
                    with anyio.fail_after(None) as scope:
                        scope_box["scope"] = scope
                        await ctx()
                elif ex["path"] == "cancel_scope":
                    with anyio.CancelScope() as scope:
                        scope_box["scope"] = scope
                        await ctx()
                else:
                    await ctx()
                st["ctx_outcome"] = "returned"
            except BaseException as e:  # noqa
                st["ctx_outcome"] = "raised:" + type(e).__name__
                if not st["entered"]:
                    st["enter_exc"] = type(e).__name__
            finally:
                st["t_exit_end"] = sim.now()
                sim.rec("body", "context-left", st.get("ctx_outcome"))
                if "child" in st:
                    st["child_at_left"] = (st["child"].alive, st["child"].reaped)

        with patched((anyio, "open_process", factory)):
            body_task = loop.create_task(body(), name="body")
            if ex.get("rel") == "abs":
                sim.at(ticks(ex["t"]), fire_exit, tie=ex["tie"], hops=ex["hops"])
            try:
                await asyncio.wait({body_task})
            except asyncio.CancelledError:
                raise
            # quiescence, then look at the process table
            await anyio.sleep(5.0)
            st["tasks_left"] = sorted(t.get_name() for t in asyncio.all_tasks() if not t.done() and t is not asyncio.current_task())

    import os as _os
    try:
        fds_before = len(_os.listdir("/proc/self/fd"))
    except OSError:
        fds_before = None
    info = run_sim(main, max_steps=600_000, max_vtime=500.0)
    try:
        fds_after = len(_os.listdir("/proc/self/fd")) if fds_before is not None else None
    except OSError:
        fds_after = None
    sim = info.sim
    out = {"violations": [], "digest": sim.digest(), "isig": sim.isig(), "faults": dict(sim.faults),
           "probes": dict(sim.probes), "vtime": info.vtime, "steps": info.steps, "harness": list(sim.harness_errors),
           "nontrivial": False, "history": None}
    def V(cls, sig, msg):
        out["violations"].append({"cls": f"C16/{cls}", "sig": f"C16/{cls}:{sig}", "msg": msg})

    # (when the cap is hit the simulator tears the run down, which may still run the body's finally: an "exit" stamped at the cap is no exit)
    if info.limit and info.exc is None and st.get("t_body_end") is not None and (st.get("t_exit_end") is None or st["t_exit_end"] - st["t_body_end"] > 400.0):
        # the body is over, the context was being left, and hundreds of virtual seconds later it still has not been: busy waiting
        # (something polls forever) is a hang like any other
        V("hang", f"{scn['exit']['path']}:{scn['child']['kind']}:busy-wait", f"leaving the context had not completed {info.vtime - st['t_body_end']:.0f} virtual seconds after the body "
                                                                             f"ended (the simulation's time cap); the exit keeps polling for something that never happens")
        out["history"] = {"child": scn["child"], "exit": scn["exit"], "limit": True}
        return out
    if info.limit or info.exc is not None:
        out["harness"].append(f"run did not complete: deadlock={info.deadlock} limit={info.limit} exc={info.exc!r}")
        return out

    def probe(k):
        out["probes"][k] = out["probes"].get(k, 0) + 1

    kind, path, moment = ch["kind"], ex["path"], scn["moment"]
    tag = f"{path}:{kind}"
    if info.deadlock or "t_exit_end" not in st:
        V("hang", tag, f"leaving the context never completed (deadlock={info.deadlock}); child alive={st.get('child') and st['child'].alive}")
        out["history"] = {"child": ch, "exit": ex, "deadlock": True}
        return out
    child = st.get("child")
    for ci, ch_ in enumerate(st["factory"].children[:-1] if st.get("child") is not None else st["factory"].children):
        if ch_.alive:
            V("child-left-running", "earlier-conversation:" + kind, f"the child of earlier conversation #{ci + 1} over the same client object is still running at the end")
    out["faults"]["child:" + kind] = 1
    out["faults"]["exit:" + path] = 1
    probe({"cancel_scope": "exit_under_cancel_scope", "task_cancel": "exit_under_task_cancel", "fail_after": "exit_under_fail_after",
           "exception": "exit_by_exception"}.get(path, "exit_normal"))
    # unstartable command: entering must raise
    if ch.get("spawn_error"):
        probe("spawn_failed")
        cancelled_before_spawn_error = st.get("t_trigger") is not None and not st["entered"]
        if st["entered"]:
            V("enter", "unstartable-entered", "open_process raised but the context was entered")
        elif st["enter_exc"] is None and not cancelled_before_spawn_error:
            V("enter", "unstartable-no-raise", f"open_process raised {ch['spawn_error']} but entering did not raise (outcome {st.get('ctx_outcome')})")
    # exit duration
    t_begin = None
    if st.get("t_body_end") is not None:
        t_begin = st["t_body_end"]
    if st.get("t_trigger") is not None and (t_begin is None or st["t_trigger"] < t_begin):
        t_begin = st["t_trigger"]
    bound = 2.0 + ticks(ch["term_latency"]) + ticks(ch["kill_latency"])
    if scn["entry"] == "stdio_client_with_initialize" and not st["entered"]:
        t_begin = None  # entering failed (handshake): no exit-time clause applies, only "no child left behind"
    if t_begin is not None and st["entered"]:
        dur = st["t_exit_end"] - t_begin
        if dur > bound:
            V("exit-time", tag, f"leaving the context took {dur:.4f}s of virtual time (> bound {bound:.4f}s): path={path} child={kind}")
    # no child left behind
    if child is not None:
        if child.alive:
            V("child-left-running", tag, f"child still running 5 s after the context was left (path={path}, moment={moment}, child={kind}, "
                                         f"signals={[s[2] for s in child.signals]}, ctx={st.get('ctx_outcome')})")
        elif not child.reaped:
            V("child-unreaped", tag, "child exited but was never reaped")
        # ... and none at the very instant the context has been left, when the child dies within the grace periods
        # (a native task.cancel() landing inside __aexit__ interrupts the wait itself - no shield holds against it; the library then kills
        #  the child and lets the interruption through without waiting: judged by the state after quiescence only)
        native_cancel_inside_exit = (path == "task_cancel" and st.get("t_trigger") is not None and st.get("t_body_end") is not None
                                     and st["t_trigger"] >= st["t_body_end"])
        if st.get("child_at_left") is not None and st["entered"] and not st.get("second_fired") and not native_cancel_inside_exit:
            alive_l, reaped_l = st["child_at_left"]
            sigs = [s[2] for s in child.signals]
            dies_in_time = False
            if "SIGKILL" in sigs:
                dies_in_time = ch["kill_latency"] < 1000
            elif "SIGTERM" in sigs and not ch.get("ignore_sigterm"):
                dies_in_time = ch["term_latency"] < 1000
            elif not sigs and child.t_exit is not None and child.t_exit < st["t_exit_end"] - ticks(4):
                dies_in_time = True  # exited by itself well before the context was left
            if dies_in_time:
                probe("child_state_checked_at_instant_of_exit")
                if alive_l:
                    V("child-left-running", "at-exit:" + tag, f"the child was still running at the instant the context was left (signals={sigs}, it needs "
                                                              f"{ch['term_latency']}/{ch['kill_latency']} ticks to die after TERM/KILL)")
                elif not reaped_l:
                    V("child-unreaped", "at-exit:" + tag, f"the child had exited but was not reaped at the instant the context was left (signals={sigs}): nobody waited for it")
        # no additional open descriptor: the read end of the child's stdout must not outlive the context
        native_cancel_in_cleanup = ((native_cancel_inside_exit or (path == "task_cancel" and st.get("trigger_in_earlier_phase")))
                                    and child.t_exit is not None and st.get("t_trigger") is not None and st["t_trigger"] >= child.t_exit)
        if not child.alive and child.stdout_fd_open and (st.get("second_fired") or native_cancel_in_cleanup):
            # a second native task.cancel() while the first one is still being handled, or a native cancel arriving when the child is
            # already gone (i.e. inside the closing of the pipes itself), interrupts the clean-up's own awaits: nothing the library
            # awaits can be relied on then (same family as the exemption for the child's state above)
            probe("cleanup_interrupted_by_second_native_cancel")
        elif not child.alive and child.stdout_fd_open:
            V("fd-left-open", tag, f"the read end of the child's stdout is still open after the context was left: {child.unread_output()} bytes of the "
                                   f"child's output were never read (more than the reader buffers), so the pipe never reached EOF and nothing closed it "
                                   f"(path={path}, child={kind})")
        if child.unread_output() > child.READER_HIGH_WATER:
            probe("exit_with_more_unread_output_than_reader_buffers")
        if any(s[2] == "SIGKILL" for s in child.signals) and ch.get("ignore_sigterm"):
            probe("sigterm_ignored_then_killed")
        if child.t_exit is not None and t_begin is not None and child.t_exit <= t_begin:
            probe("child_already_dead_at_exit")
        if ch.get("flood_every"):
            probe("flood_at_exit")
        if sim.probes.get("stdin_send_blocked"):
            probe("writer_blocked_at_exit")
    # pending request: never a fabricated result
    for rec in st["requests"]:
        if rec["outcome"] and rec["outcome"][0] == "result":
            if rec["outcome"][1] not in [r["result"] for r in st["responses_written"]]:
                V("fabricated-result", kind, f"request returned {rec['outcome'][1]!r:.120} which the child never wrote")
        if rec["outcome"] and rec["outcome"][0] == "raise" and rec.get("child_alive_at_end") is False:
            probe("request_pending_when_child_died")
    # real descriptors of this very process (the library may open some itself, e.g. /dev/null for a quiet child)
    if fds_before is not None and fds_after is not None and fds_after > fds_before:
        V("fd-left-open", f"real-descriptor:{path}:{kind}", f"the process had {fds_before} open descriptors before the run and {fds_after} after it "
                                                            f"(path={path}, child={kind}, quiet_env={bool(scn.get('quiet_env'))}, entered={st['entered']})")
    if scn.get("quiet_env"):
        probe("server_env_asks_for_quiet_logging")
    never_ended = [rec for rec in st["requests"] if rec["outcome"] is None]
    if never_ended and child is not None and child.t_exit is not None and path in ("normal", "exception") and not st.get("t_trigger"):
        V("request-never-ended", kind, f"{len(never_ended)} of {len(st['requests'])} requests pending when the child died never ended (neither timeout nor error)")
    if kind == "never_reads_then_exits" and len(st["requests"]) > 100:
        probe("requests_parked_behind_full_outgoing_queue_when_child_died")
    if st.get("tasks_left"):
        V("task-left", tag, f"tasks still alive after the context was left: {st['tasks_left']}")
    out["nontrivial"] = kind != "well_behaved" or path != "normal"
    out["history"] = {"entry": scn["entry"], "child": ch, "exit": ex, "moment": moment, "entered": st["entered"], "ctx_outcome": st.get("ctx_outcome"),
                      "t_body_end": st.get("t_body_end"), "t_trigger": st.get("t_trigger"), "t_exit_end": st["t_exit_end"],
                      "signals": [(s[1], s[2]) for s in child.signals] if child else None, "child_exit": (child.t_exit, child.exit_code) if child else None,
                      "requests": [(r["t"], repr(r["outcome"])[:80]) for r in st["requests"]]}
    return out
