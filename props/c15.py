"""C15 - client-observable behaviour does not depend on the transport carrying it.

SUT: the four carriers - stdio (FakeProcess), Streamable HTTP with JSON bodies, Streamable HTTP with SSE
bodies, legacy SSE - each real transport over its fake, with the same request helpers on top.
One generated conversation is compiled to every carrier able to express it; only nuisance nondeterminism
(latency, chunking) varies.  Oracle: differential transcript/outcome equality (stdio as reference) plus a
check of every carrier against the conversation itself.
"""
from __future__ import annotations

import copy
import hashlib
import importlib
import json
import random
import uuid as _uuid

import anyio
import httpx

from sim.loop import run_sim, ticks
from sim.streams import patched, FakeUUID, RecRecv
from sim.fakes.process import ProcessFactory
from sim.fakes.http import SimHTTPTransport, make_client_class

ID = "C15"
LEVEL = "exploration"
RULE = ("scenario = one conversation (initialize + 1..5 list/call/read/get/ping/raw exchanges; results with nested Unicode/nulls, error replies of "
        "several classes, 0..3 notifications before each response, string and integer ids) run over every carrier able to express it, with "
        "per-carrier nuisance (latency, chunking); non-trivial = at least two carriers ran and the conversation has a notification, an error "
        "reply, an integer id or non-ASCII payload")
PROBES = ["parameters_object_reused_after_server_restart", "pipelined_requests_late_reader", "result_with_explicit_null_error", "error_reply_with_code_0_or_empty_message", "lone_surrogate_escape_in_server_text", "legacy_sse_untyped_event_with_endpoint_like_payload", "server_greets_at_connection_time", "greeting_in_same_chunk_as_endpoint", "http_session_assigned_with_initialize_result", "http_sse_untyped_events_after_keepalive", "through_mcpclient", "slow_notification_transit_on_http", "over_100_notifications_in_session", "sse_event_before_202", "notifications_before_response", "error_reply", "int_id", "non_ascii_payload", "four_carriers", "nested_nulls"]
TIERS = {"quick": {"runs": 3000, "wall": 45.0}, "thorough": {"runs": 80000, "wall": 560.0}}
ASSUMPTIONS = ["fault-free by construction: only latency and chunking vary between carriers",
               "JSON-body HTTP runs only conversations without interleaved notifications (a single JSON object cannot express them)",
               "results are JSON objects (MCP results always are)"]
STUB = ["stdio child: FakeProcess; HTTP wire: SimHTTPTransport"]
SHRINK_LISTS = ["exchanges"]

TEXTS = ["plain", "café €", "\U0001F600 astral", "ls\u2028ps\u2029", "nel\u0085", "tab\tq\"uote\\", "line\\nbreak", "ひらがな"]
HELPERS = ["tools_list", "tools_call", "resources_read", "prompts_get", "ping", "raw", "raw", "resources_list", "prompts_list"]


def generate(rng: random.Random, tier: str) -> dict:
    ex = []
    for k in range(rng.choice([1, 2, 3, 5])):
        h = rng.choice(HELPERS)
        e = {"helper": h, "notifs": rng.choice([0, 0, 1, 2, 3, 3, 45, 70] if rng.random() < 0.25 else [0, 0, 1, 2, 3]), "reply": rng.choice(["result", "result", "result", "error"]),
             "code": rng.choice([-32601, -32602, -32603, -32000, -32001, 42, 401, 0]), "empty_errmsg": rng.random() < 0.1, "null_error": rng.random() < 0.1, "text": rng.choice(TEXTS), "nulls": rng.random() < 0.4,
             "data": rng.choice([None, {"d": 1}, "str", [1, None]])}
        if rng.random() < 0.12:
            # text only the server says (results, errors, notifications): an emoji cut in half as JSON.stringify emits it, paths that
            # look like endpoint announcements
            e["stext"] = rng.choice([" cut\ud83d", " \udc00tail", " file:///srv/mcp/notes.txt", " see /messages/?x=1", " 1e400"])
        if h == "raw":
            e["id"] = rng.choice([f"raw-{k}", k + 10, f"{k + 10}", -k - 1, 2 ** 53 + k])
        ex.append(e)
    api = rng.choice(["helpers", "helpers", "mcpclient"])
    if rng.random() < 0.03:
        # a client that writes many requests before it reads anything (pipelining / a reader that starts late): more than 100 messages
        # pile up behind the read stream
        api = "pipelined"
        ex = []
        for k in range(rng.choice([30, 40])):
            ex.append({"helper": "raw", "notifs": 3, "reply": rng.choice(["result", "result", "error"]), "code": -32000, "text": rng.choice(TEXTS), "nulls": False,
                       "data": None, "id": f"r{k}"})
    greeting = None
    if api == "helpers" and rng.random() < 0.15:
        # the server says something the moment the connection is up (only carriers with a server-to-client channel at that time can express it)
        greeting = {"n": rng.choice([1, 1, 2, 5]), "same_chunk": rng.random() < 0.7}
    return {"v": 1, "uuid_seed": rng.getrandbits(40), "exchanges": ex, "init": True if api == "mcpclient" else rng.random() < 0.8, "client_api": api,
            "greeting": greeting,
            "nuisance": {"lat": rng.choice([0, 1, 20]), "chunk": rng.choice([None, 1, 5, 64]), "sse_chunk": rng.choice([None, 3, 16]),
                         "sse_post_lat": rng.choice([1, 1, 30, 200]), "sse_event_first": rng.random() < 0.4,
                         "notif_transit": rng.choice([0, 0, 40, 300]), "sse_style": rng.choice([None, None, "untyped"]),
                         # a session-keeping Streamable HTTP server: id assigned with the InitializeResult only / repeated on every reply / no sessions
                         "http_session": rng.choice([None, "init_only", "init_only", "every"]),
                         "ascii_json": rng.random() < 0.2, "reuse_params": rng.random() < 0.3, "legacy_sse_style": rng.choice([None, None, "untyped"])}}


def simplify(scn):
    if scn.get("greeting"):
        c = copy.deepcopy(scn); c["greeting"] = None; yield c
    if scn["nuisance"].get("http_session"):
        c = copy.deepcopy(scn); c["nuisance"]["http_session"] = None; yield c
    if scn.get("client_api") == "mcpclient":
        c = copy.deepcopy(scn); c["client_api"] = "helpers"; yield c
    if scn["init"] and scn.get("client_api") != "mcpclient":
        c = copy.deepcopy(scn); c["init"] = False; yield c
    n = scn["nuisance"]
    if n["lat"] or n["chunk"] or n["sse_chunk"] or n.get("sse_event_first") or n.get("notif_transit") or n.get("sse_style") or n.get("ascii_json") or n.get("legacy_sse_style"):
        c = copy.deepcopy(scn); c["nuisance"] = {"lat": 0, "chunk": None, "sse_chunk": None, "sse_post_lat": 1, "sse_event_first": False, "notif_transit": 0, "sse_style": None, "http_session": None, "ascii_json": False, "legacy_sse_style": None}; yield c
    for i, e in enumerate(scn["exchanges"]):
        if e.get("stext"):
            c = copy.deepcopy(scn); del c["exchanges"][i]["stext"]; yield c
        for key, val in (("notifs", 0), ("nulls", False), ("text", "plain"), ("data", None)):
            if e.get(key) != val:
                c = copy.deepcopy(scn); c["exchanges"][i][key] = val; yield c


def _dumps(m, scn=None) -> str:
    """the server's JSON: non-ASCII kept raw unless the conversation asks for \\u escapes or the text cannot be encoded raw (lone surrogate)"""
    if scn is not None and scn["nuisance"].get("ascii_json"):
        return json.dumps(m, ensure_ascii=True)
    txt = json.dumps(m, ensure_ascii=False)
    try:
        txt.encode("utf-8")
        return txt
    except UnicodeEncodeError:
        return json.dumps(m, ensure_ascii=True)


def _result_for(e, k):
    t, mk = e["text"] + e.get("stext", ""), f"mk{k}"
    nul = {"n": None, "deep": [None, {"x": None}]} if e["nulls"] else {}
    h = e["helper"]
    if h == "tools_list":
        return {"tools": [{"name": mk, "description": t, "inputSchema": {"type": "object"}}], **({"nextCursor": None} if e["nulls"] else {})}
    if h == "tools_call":
        return {"content": [{"type": "text", "text": t + mk}], "isError": False}
    if h == "resources_read":
        return {"contents": [{"uri": "file:///" + mk, "text": t}]}
    if h == "resources_list":
        return {"resources": [{"uri": "file:///" + mk, "name": t}]}
    if h == "prompts_get":
        return {"description": t, "messages": [{"role": "user", "content": {"type": "text", "text": t + mk}}]}
    if h == "prompts_list":
        return {"prompts": [{"name": mk, "description": t}]}
    if h == "ping":
        return {}
    return {"marker": mk, "text": t, **nul}


def _reply(e, k, rid):
    if e["reply"] == "error":
        err = {"code": e["code"], "message": "" if e.get("empty_errmsg") else "err " + e["text"] + e.get("stext", "")}
        if e["data"] is not None:
            err["data"] = e["data"]
        return {"jsonrpc": "2.0", "id": rid, "error": err}
    if e.get("null_error"):
        # some servers serialise every field of their response object: an explicit "error": null next to the result
        return {"jsonrpc": "2.0", "id": rid, "result": _result_for(e, k), "error": None}
    return {"jsonrpc": "2.0", "id": rid, "result": _result_for(e, k)}


def _notifs(e, k):
    return [{"jsonrpc": "2.0", "method": "notifications/message", "params": {"level": "info", "data": f"{e['text']}{e.get('stext', '')} n{k}.{j}", "j": j}}
            for j in range(e["notifs"])]


INIT_RESULT = {"protocolVersion": "2025-06-18", "capabilities": {"tools": {"listChanged": True}}, "serverInfo": {"name": "sim-ü", "version": "1"}}


def _greeting(scn):
    g = scn.get("greeting")
    return [{"jsonrpc": "2.0", "method": "notifications/message", "params": {"level": "info", "data": f"hello-{j}"}} for j in range(g["n"])] if g else []


def _server_messages(scn, posted):
    """what the conversation's server sends for this incoming request (same for every carrier)"""
    if isinstance(posted, dict) and "id" not in posted and posted.get("method") == "notifications/initialized":
        scn["_initialized_seen"] = True
    if not isinstance(posted, dict) or "id" not in posted:
        return []
    if scn["init"] and posted.get("method") != "initialize" and not scn.get("_initialized_seen"):
        # a lifecycle-enforcing server: requests that reach it before notifications/initialized are refused
        scn["_counter"][0] += 1
        return [{"jsonrpc": "2.0", "id": posted["id"], "error": {"code": -32002, "message": "request received before notifications/initialized"}}]
    if posted.get("method") == "initialize":
        return [{"jsonrpc": "2.0", "id": posted["id"], "result": INIT_RESULT}]
    k = (posted.get("params") or {}).get("_k")
    if k is None:
        k = scn["_order"].get(posted.get("method"), [None])[0]
    # exchanges are sequential: the n-th non-initialize request is exchange n
    k = scn["_counter"][0]
    scn["_counter"][0] += 1
    e = scn["exchanges"][k]
    return _notifs(e, k) + [_reply(e, k, posted["id"])]


async def _converse(sim, scn, read_stream, write_stream, st):
    """the client side of the conversation: same code for every carrier"""
    sm = importlib.import_module("chuk_mcp.protocol.messages.send_message")
    ini = importlib.import_module("chuk_mcp.protocol.messages.initialize.send_messages")
    from chuk_mcp.protocol.messages.tools.send_messages import send_tools_list, send_tools_call
    from chuk_mcp.protocol.messages.resources.send_messages import send_resources_read, send_resources_list
    from chuk_mcp.protocol.messages.prompts.send_messages import send_prompts_get, send_prompts_list
    from chuk_mcp.protocol.messages.ping.send_messages import send_ping

    rr = RecRecv(sim, read_stream)
    st["rr"] = rr
    outcomes = st["outcomes"]

    def norm(res):
        if hasattr(res, "model_dump"):
            return res.model_dump(by_alias=True)
        return res

    async def run(label, coro):
        try:
            outcomes.append((label, "ok", norm(await coro)))
        except BaseException as e:  # noqa
            outcomes.append((label, "raise", type(e).__name__, getattr(e, "code", None), str(e)[:200]))

    T = 5.0
    if scn["init"]:
        await run("initialize", ini.send_initialize(rr, write_stream, timeout=T))
    if scn.get("client_api") == "pipelined":
        from chuk_mcp.protocol.messages.json_rpc_message import JSONRPCRequest
        for k, e in enumerate(scn["exchanges"]):
            await write_stream.send(JSONRPCRequest.model_validate({"jsonrpc": "2.0", "id": e["id"], "method": "x/raw", "params": {"q": e["text"]}}))
        await anyio.sleep(1.5)   # ... and only now starts reading, until the line has been quiet for two seconds
        while True:
            got_one = False
            with anyio.move_on_after(2.0):
                await rr.receive()
                got_one = True
            if not got_one:
                break
        return
    for k, e in enumerate(scn["exchanges"]):
        h = e["helper"]
        if h == "tools_list":
            await run(f"{k}:tools_list", send_tools_list(rr, write_stream, timeout=T))
        elif h == "tools_call":
            await run(f"{k}:tools_call", send_tools_call(rr, write_stream, "echo", {"text": e["text"]}, timeout=T))
        elif h == "resources_read":
            await run(f"{k}:resources_read", send_resources_read(rr, write_stream, "file:///x", timeout=T))
        elif h == "resources_list":
            await run(f"{k}:resources_list", send_resources_list(rr, write_stream, timeout=T))
        elif h == "prompts_get":
            await run(f"{k}:prompts_get", send_prompts_get(rr, write_stream, "p", {"a": e["text"]}, timeout=T))
        elif h == "prompts_list":
            await run(f"{k}:prompts_list", send_prompts_list(rr, write_stream, timeout=T))
        elif h == "ping":
            await run(f"{k}:ping", send_ping(rr, write_stream, timeout=T))
        else:
            await run(f"{k}:raw", sm.send_message(rr, write_stream, "x/raw", {"q": e["text"]}, timeout=T, message_id=e["id"]))
    # trailing traffic
    with anyio.move_on_after(1.0):
        while True:
            await rr.receive()


async def _converse_mcp(sim, scn, transport, st):
    """the same conversation through the high-level MCPClient over a Transport object"""
    sm = importlib.import_module("chuk_mcp.protocol.messages.send_message")
    from chuk_mcp.client.connection import connect_to_server

    orig = transport.get_streams

    async def get_streams():
        if "rr" not in st:
            r, w = await orig()
            st["rr"] = RecRecv(sim, r)
            st["w"] = w
        return st["rr"], st["w"]

    transport.get_streams = get_streams
    outcomes = st["outcomes"]

    def norm(res):
        if isinstance(res, list):
            return [norm(x) for x in res]
        if hasattr(res, "model_dump"):
            return res.model_dump(by_alias=True)
        return res

    async def run(label, coro):
        try:
            outcomes.append((label, "ok", norm(await coro)))
        except BaseException as e:  # noqa
            outcomes.append((label, "raise", type(e).__name__, getattr(e, "code", None), str(e)[:200]))

    try:
        async with connect_to_server(transport) as client:
            outcomes.append(("initialize", "ok", {"server": norm(client.server_info), "caps": norm(client.capabilities)}))
            for k, e in enumerate(scn["exchanges"]):
                h = e["helper"]
                if h == "tools_list":
                    await run(f"{k}:tools_list", client.list_tools())
                elif h == "tools_call":
                    await run(f"{k}:tools_call", client.call_tool("echo", {"text": e["text"]}))
                elif h == "resources_read":
                    await run(f"{k}:resources_read", client.read_resource("file:///x"))
                elif h == "resources_list":
                    await run(f"{k}:resources_list", client.list_resources())
                elif h == "prompts_get":
                    await run(f"{k}:prompts_get", client.get_prompt("p", {"a": e["text"]}))
                elif h == "prompts_list":
                    await run(f"{k}:prompts_list", client.list_prompts())
                elif h == "ping":
                    await run(f"{k}:ping", sm.send_message(st["rr"], st["w"], "ping", None, timeout=5.0))
                else:
                    await run(f"{k}:raw", sm.send_message(st["rr"], st["w"], "x/raw", {"q": e["text"]}, timeout=5.0, message_id=e["id"]))
            with anyio.move_on_after(1.0):
                while True:
                    await st["rr"].receive()
    except BaseException as e:  # noqa
        outcomes.append(("connect", "raise", type(e).__name__, getattr(e, "code", None), str(e)[:200]))
        if "rr" not in st:
            class _Empty:
                got = []
            st["rr"] = _Empty()


def _transcript(st):
    out = []
    for (_e, _t, _tn, m) in st["rr"].got:
        if hasattr(m, "model_dump"):
            d = {k: v for k, v in m.model_dump().items() if v is not None}
        else:
            d = {"<non-message>": repr(m)[:60]}
        kind = "notification" if ("method" in d and "id" not in d) else ("request" if "method" in d else ("error" if "error" in d else "result"))
        rid = d.get("id")
        out.append((kind, type(rid).__name__, rid, d.get("method"), d.get("params") if "method" in d else (d.get("result") if "result" in d else d.get("error"))))
    return out


def _run_stdio(scn):
    stdio = importlib.import_module("chuk_mcp.transports.stdio.stdio_client")
    from chuk_mcp.transports.stdio.parameters import StdioParameters
    st = {"outcomes": []}
    n = scn["nuisance"]

    async def main(sim):
        def responder(line):
            try:
                posted = json.loads(line)
            except Exception:
                return []
            msgs = _server_messages(scn, posted)
            if not msgs:
                return []
            data = b"".join(_dumps(m, scn).encode() + b"\n" for m in msgs)
            ch = n["chunk"]
            pieces = [data[i:i + ch] for i in range(0, len(data), ch)] if ch else [data]
            return [(ticks(n["lat"]) + ticks(1), pieces)]

        factory = ProcessFactory(sim, lambda idx, argv, env: {"read_mode": "eager", "responder": responder})
        with patched((anyio, "open_process", factory)):
            if scn.get("client_api") == "mcpclient":
                from chuk_mcp.transports.stdio.transport import StdioTransport
                await _converse_mcp(sim, scn, StdioTransport(StdioParameters(command="sim-child", args=[])), st)
            else:
                async with stdio.stdio_client(StdioParameters(command="sim-child", args=[])) as (r, w):
                    if scn.get("greeting"):
                        factory.children[0].write_stdout([b"".join(json.dumps(m).encode() + b"\n" for m in _greeting(scn))])
                    await _converse(sim, scn, r, w, st)
    return main, st


def _sse_body(msgs, style=None, scn=None):
    """style: None = every message typed 'event: message'; 'untyped' = default-typed events behind a data-less 'event: ping' keep-alive
    and comment lines (all legal framing that carries no message)"""
    if style == "untyped":
        return (": keep-alive\n\nevent: ping\n\n" + "".join(f"data: {_dumps(m, scn)}\n\n: c\n\n" for m in msgs)).encode()
    return "".join(f"event: message\ndata: {_dumps(m, scn)}\n\n" for m in msgs).encode()


def _run_http(scn, sse_bodies: bool):
    httpmod = importlib.import_module("chuk_mcp.transports.http.http_client")
    from chuk_mcp.transports.http.parameters import StreamableHTTPParameters
    st = {"outcomes": []}
    n = scn["nuisance"]

    async def main(sim):
        sess = {"assigned": False}
        mode = n.get("http_session") if scn["init"] else None

        def server(rec):
            posted = json.loads(rec["body"]) if rec["body"] else None
            hdr = {}
            if mode:
                is_init = isinstance(posted, dict) and posted.get("method") == "initialize"
                if is_init and rec["headers"].get("mcp-session-id") is not None:
                    # an initialize that presents a session id this server (instance) never issued: 404, as for any unknown session
                    sim.rec("server", "404-unknown-session-on-initialize", None)
                    return {"latency": ticks(n["lat"]), "status": 404, "headers": {"content-type": "text/plain"}, "chunks": [(0, b"session not found")]}
                if sess["assigned"] and not is_init and rec["headers"].get("mcp-session-id") != "sess-1":
                    sim.rec("server", "400-missing-session", None)
                    err = {"jsonrpc": "2.0", "id": posted.get("id") if isinstance(posted, dict) else None,
                           "error": {"code": -32000, "message": "Bad Request: Mcp-Session-Id header is required"}}
                    return {"latency": ticks(n["lat"]), "status": 400, "headers": {"content-type": "application/json"}, "chunks": [(0, json.dumps(err).encode())]}
                if is_init:
                    sess["assigned"] = True
                    hdr = {"mcp-session-id": "sess-1"}
                    sim.probe("http_session_assigned_with_initialize_result")
                elif mode == "every":
                    hdr = {"mcp-session-id": "sess-1"}
            msgs = _server_messages(scn, posted)
            if not msgs:
                return {"latency": ticks(n["lat"]), "status": 202, "headers": dict(hdr), "chunks": [(0, b"")]}
            if sse_bodies:
                raw = _sse_body(msgs, n.get("sse_style"), scn)
                ct = "text/event-stream"
            else:
                raw = _dumps(msgs[0], scn).encode()
                ct = "application/json"
            ch = n["chunk"]
            chunks = [(0, raw[i:i + ch]) for i in range(0, len(raw), ch)][:300] if ch else [(0, raw)]
            if ch and len(raw) > ch * 300:
                chunks.append((0, raw[ch * 300:]))
            return {"latency": ticks(n["lat"]), "status": 200, "headers": dict(hdr, **{"content-type": ct}), "chunks": chunks}

        transport = SimHTTPTransport(sim, server)
        if n.get("notif_transit"):
            def pre_delay(rec):
                try:
                    posted = json.loads(rec["body"]) if rec["body"] else {}
                except Exception:
                    posted = {}
                return ticks(n["notif_transit"]) if isinstance(posted, dict) and "id" not in posted else ticks(1)
            transport.pre_delay = pre_delay
        Client = make_client_class(lambda: transport)
        with patched((httpx, "AsyncClient", Client)):
            if scn.get("client_api") == "mcpclient":
                from chuk_mcp.transports.http.transport import StreamableHTTPTransport
                await _converse_mcp(sim, scn, StreamableHTTPTransport(StreamableHTTPParameters(url="http://sim.test/mcp", timeout=10.0)), st)
            else:
                params_obj = StreamableHTTPParameters(url="http://sim.test/mcp", timeout=10.0)
                if mode and n.get("reuse_params"):
                    # an earlier connection built from the same parameters object got a session; then the server was restarted
                    ini_ = importlib.import_module("chuk_mcp.protocol.messages.initialize.send_messages")
                    with patched((_uuid, "uuid4", FakeUUID(777))):   # (its own id source: the main conversation's ids stay what they are)
                        async with httpmod.http_client(params_obj) as (r0, w0):
                            try:
                                await ini_.send_initialize(r0, w0, timeout=5.0)
                                sm_ = importlib.import_module("chuk_mcp.protocol.messages.send_message")
                                await sm_.send_message(r0, w0, "x/raw", {"q": "earlier connection"}, timeout=5.0)
                            except Exception:
                                pass
                    sess["assigned"] = False
                    scn["_initialized_seen"] = False
                    scn["_counter"][0] = 0
                    sim.probe("parameters_object_reused_after_server_restart")
                async with httpmod.http_client(params_obj) as (r, w):
                    await _converse(sim, scn, r, w, st)
    return main, st


def _run_sse(scn):
    ssemod = importlib.import_module("chuk_mcp.transports.sse.sse_client")
    from chuk_mcp.transports.sse.parameters import SSEParameters
    st = {"outcomes": []}
    n = scn["nuisance"]

    async def main(sim):
        box = {}

        def keepalive():
            s = box.get("stream")
            if s is not None and not s.closed:
                s.push(b": ka\n\n")
                sim.at(sim.now() + 4.0, keepalive, tie=2)

        def on_stream(stream, rec):
            box["stream"] = stream
            ann = b"event: endpoint\ndata: /messages/?session_id=s1\n\n"
            if scn.get("greeting"):
                greet = _sse_body(_greeting(scn))
                if scn["greeting"]["same_chunk"]:
                    stream.push(ann + greet)
                    sim.probe("greeting_in_same_chunk_as_endpoint")
                else:
                    stream.push(ann)
                    stream.push(greet)
            else:
                stream.push(ann)
            sim.at(sim.now() + 4.0, keepalive, tie=2)

        def server(rec):
            if rec["method"] == "GET":
                return {"status": 200, "headers": {"content-type": "text/event-stream"}, "chunks": [], "stay_open": True, "on_stream": on_stream}
            posted = json.loads(rec["body"]) if rec["body"] else None
            msgs = _server_messages(scn, posted)
            if msgs:
                raw = _sse_body(msgs, n.get("legacy_sse_style"), scn)
                ch = n["sse_chunk"]
                pieces = [raw[i:i + ch] for i in range(0, len(raw), ch)] if ch else [raw]

                def push():
                    for p in pieces:
                        box["stream"].push(p)
                post_lat = n.get("sse_post_lat", 1)
                # the events may reach the client before or after the 202 acknowledgement of the POST
                ev_at = ticks(max(0, post_lat - 1)) if n.get("sse_event_first") and post_lat > 1 else ticks(post_lat) + ticks(n["lat"]) + ticks(1)
                sim.at(sim.now() + ev_at, push, tie=0)
                return {"latency": ticks(post_lat), "status": 202, "chunks": [(0, b"Accepted")]}
            return {"latency": ticks(1), "status": 202, "chunks": [(0, b"Accepted")]}

        transport = SimHTTPTransport(sim, server)
        Client = make_client_class(lambda: transport)
        with patched((httpx, "AsyncClient", Client)):
            if scn.get("client_api") == "mcpclient":
                from chuk_mcp.transports.sse.transport import SSETransport
                await _converse_mcp(sim, scn, SSETransport(SSEParameters(url="http://sim.test", timeout=10.0)), st)
            else:
                async with ssemod.sse_client(SSEParameters(url="http://sim.test", timeout=10.0)) as (r, w):
                    await _converse(sim, scn, r, w, st)
    return main, st


def execute(scn: dict) -> dict:
    has_notifs = any(e["notifs"] for e in scn["exchanges"])
    carriers = [("stdio", lambda s: _run_stdio(s)), ("http-sse", lambda s: _run_http(s, True)), ("sse", lambda s: _run_sse(s))]
    if not has_notifs:
        carriers.insert(1, ("http-json", lambda s: _run_http(s, False)))
    if scn.get("greeting"):
        carriers = [c for c in carriers if c[0] in ("stdio", "sse")]
    results = {}
    digests, isigs = [], []
    out = {"violations": [], "digest": "", "isig": "", "faults": {}, "probes": {}, "vtime": 0.0, "steps": 0, "harness": [],
           "nontrivial": False, "history": None}
    for name, mk in carriers:
        s = copy.deepcopy(scn)
        s["_counter"] = [0]
        s["_order"] = {}
        main, st = mk(s)
        with patched((_uuid, "uuid4", FakeUUID(scn["uuid_seed"]))):
            info = run_sim(main, max_steps=600_000, max_vtime=3000.0)
        out["vtime"] += info.vtime
        out["steps"] += info.steps
        out["harness"] += [f"{name}: {h}" for h in info.sim.harness_errors]
        if info.deadlock or info.limit or info.exc is not None:
            out["harness"].append(f"{name}: run did not complete: deadlock={info.deadlock} limit={info.limit} exc={info.exc!r}")
            continue
        for pk, pv in info.sim.probes.items():
            out["probes"][pk] = out["probes"].get(pk, 0) + pv
        for fk, fv in info.sim.faults.items():
            out["faults"][fk] = out["faults"].get(fk, 0) + fv
        digests.append(info.sim.digest())
        isigs.append(info.sim.isig())
        results[name] = {"transcript": _transcript(st), "outcomes": st["outcomes"]}
    out["digest"] = hashlib.sha256("".join(digests).encode()).hexdigest()[:16]
    if out["harness"]:
        return out

    def V(cls, sig, msg):
        out["violations"].append({"cls": f"C15/{cls}", "sig": f"C15/{cls}:{sig}", "msg": msg})

    def probe(k):
        out["probes"][k] = out["probes"].get(k, 0) + 1

    # expected from the conversation itself
    exp_t = [("notification", "NoneType", None, g["method"], g["params"]) for g in _greeting(scn)]
    if scn.get("greeting"):
        probe("server_greets_at_connection_time")
    if scn["init"]:
        exp_t.append(("result", "str", None, None, INIT_RESULT))
    for k, e in enumerate(scn["exchanges"]):
        for nmsg in _notifs(e, k):
            exp_t.append(("notification", "NoneType", None, nmsg["method"], nmsg["params"]))
        rep = _reply(e, k, e.get("id", "<auto>"))
        if rep.get("error", 0) is None:
            rep = {k_: v_ for k_, v_ in rep.items() if k_ != "error"}
            probe("result_with_explicit_null_error")
        exp_t.append(("error" if "error" in rep else "result", type(e["id"]).__name__ if "id" in e else "str", e.get("id"), None,
                      rep.get("result") if "result" in rep else rep["error"]))
    ref = results["stdio"]
    for name, res in results.items():
        if any(o[0] == "connect" and o[1] == "raise" for o in res["outcomes"]):
            V("vs-conversation", f"{name}:connect-failed", f"{name}: connecting/initialising failed in a fault-free conversation: {res['outcomes'][-1]!r:.200}")
        # against the conversation (ids of helper exchanges are auto-generated: compare everything but their value)
        tr = res["transcript"]
        if len(tr) != len(exp_t):
            V("vs-conversation", f"{name}:message-count", f"{name}: read stream delivered {len(tr)} messages, the conversation has {len(exp_t)}: {tr!r:.300}")
        else:
            for i, (g, x) in enumerate(zip(tr, exp_t)):
                same = g[0] == x[0] and g[1] == x[1] and g[3] == x[3] and g[4] == x[4] and (x[2] is None or g[2] == x[2])
                if not same:
                    field = "kind" if g[0] != x[0] else ("id-type" if g[1] != x[1] else ("id" if (x[2] is not None and g[2] != x[2]) else ("method" if g[3] != x[3] else "payload")))
                    V("vs-conversation", f"{name}:{field}", f"{name}: message #{i} is {g!r:.200}, the conversation says {x!r:.200}")
                    break
        if name == "stdio":
            continue
        if res["transcript"] != ref["transcript"]:
            i = next((i for i, (a, b) in enumerate(zip(res["transcript"], ref["transcript"])) if a != b), min(len(res["transcript"]), len(ref["transcript"])))
            V("differential", f"{name}:transcript", f"{name} and stdio deliver different read streams, first difference at #{i}: "
                                                    f"{name}={res['transcript'][i] if i < len(res['transcript']) else None!r:.200} "
                                                    f"stdio={ref['transcript'][i] if i < len(ref['transcript']) else None!r:.200}")
        if res["outcomes"] != ref["outcomes"]:
            i = next((i for i, (a, b) in enumerate(zip(res["outcomes"], ref["outcomes"])) if a != b), 0)
            V("differential", f"{name}:helper-outcome", f"{name} and stdio give different helper outcomes at #{i}: {name}={res['outcomes'][i]!r:.200} stdio={ref['outcomes'][i]!r:.200}")
    # helper outcomes against the conversation
    base = 1 if scn["init"] else 0
    for k, e in enumerate(scn["exchanges"] if scn.get("client_api") != "mcpclient" else []):
        o = ref["outcomes"][base + k] if base + k < len(ref["outcomes"]) else None
        if o is None:
            continue
        if e["reply"] == "error":
            if e["helper"] == "ping":
                ok = o[1] == "ok" and o[2] is False
            else:
                ok = o[1] == "raise" and o[3] == e["code"]
        else:
            ok = o[1] == "ok"
            if e["helper"] == "raw":
                ok = ok and o[2] == _result_for(e, k)
        if not ok:
            V("vs-conversation", f"stdio:helper-outcome:{e['helper']}", f"exchange #{k} ({e['helper']}, reply {e['reply']} code {e['code']}): helper outcome {o!r:.200}")
    if any(e["notifs"] for e in scn["exchanges"]):
        probe("notifications_before_response")
    if any(e["reply"] == "error" for e in scn["exchanges"]):
        probe("error_reply")
    if any(e["reply"] == "error" and (e["code"] == 0 or e.get("empty_errmsg")) for e in scn["exchanges"]):
        probe("error_reply_with_code_0_or_empty_message")
    if any(isinstance(e.get("id"), int) for e in scn["exchanges"]):
        probe("int_id")
    if any(not e["text"].isascii() for e in scn["exchanges"]):
        probe("non_ascii_payload")
    if any(e["nulls"] for e in scn["exchanges"]):
        probe("nested_nulls")
    if scn["nuisance"].get("notif_transit") and scn["init"]:
        probe("slow_notification_transit_on_http")
    if sum(e["notifs"] for e in scn["exchanges"]) > 100:
        probe("over_100_notifications_in_session")
    if len(results) == 4:
        probe("four_carriers")
    if scn.get("client_api") == "mcpclient":
        probe("through_mcpclient")
    if scn.get("client_api") == "pipelined":
        probe("pipelined_requests_late_reader")
    if any("\\ud" in json.dumps(e.get("stext", "")) for e in scn["exchanges"]):
        probe("lone_surrogate_escape_in_server_text")
    if scn["nuisance"].get("legacy_sse_style") == "untyped" and any("/m" in e.get("stext", "") for e in scn["exchanges"]):
        probe("legacy_sse_untyped_event_with_endpoint_like_payload")
    if scn["nuisance"].get("sse_style") == "untyped":
        probe("http_sse_untyped_events_after_keepalive")
    if scn["nuisance"].get("sse_event_first") and scn["nuisance"].get("sse_post_lat", 1) > 1:
        probe("sse_event_before_202")
    out["nontrivial"] = len(results) >= 2 and any(out["probes"].get(p) for p in ("notifications_before_response", "error_reply", "int_id", "non_ascii_payload"))
    out["isig"] = hashlib.blake2b(("|".join(isigs) + repr([(e["helper"], e["notifs"], e["reply"]) for e in scn["exchanges"]])).encode(), digest_size=8).hexdigest()
    out["history"] = {"carriers": list(results), "conversation": [(e["helper"], e.get("id"), e["notifs"], e["reply"]) for e in scn["exchanges"]],
                      "stdio_transcript": ref["transcript"][:8], "stdio_outcomes": [o[:4] for o in ref["outcomes"]][:6]}
    return out
