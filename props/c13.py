"""C13 - batches are accepted exactly for protocol versions older than 2025-06-18.

SUT: real StdioClient reader + BatchProcessor + supports_batching on a FakeProcess; the version is set
by a simulated handshake (send_initialize_with_client_tracking) or set_protocol_version, and may change
mid-connection at generated instants around batch arrivals.
Oracle: mode model from an independent date compare (must agree with ProtocolVersion.compare).
"""
from __future__ import annotations

import copy
import importlib
import itertools
import json
import random
import uuid as _uuid

import anyio

from sim.loop import run_sim, ticks
from sim.streams import patched, FakeUUID
from sim.fakes.process import ProcessFactory

ID = "C13"
LEVEL = "exploration"
RULE = ("scenario = version (none / supported / cutoff +-1 day,month,year / random dddd-dd-dd 1990..2199) set by handshake or setter, "
        "+ server lines (single messages and batch arrays of 0..4 valid/invalid members, chunked) + version changes mid-connection; "
        "non-trivial = at least one batch array was processed; distinct also varies with the version stratum")
PROBES = ["batch_sent_right_after_initialized_was_read", "transport_object_reentered_after_versioned_connection", "notification_side_stream_full", "handshake_counter_proposal", "rejection_while_outgoing_saturated", "legacy_request_streams_registered", "batch_rejected", "batch_accepted", "version_change_same_instant_as_batch", "mode_flipped_mid_connection",
          "invalid_member_dropped", "empty_batch", "handshake_set_version", "cutoff_neighbour_version"]
TIERS = {"quick": {"runs": 15000, "wall": 45.0}, "thorough": {"runs": 1000000, "wall": 560.0}}
ASSUMPTIONS = [
    "the decision function is sampled (stratified, cutoff-biased), not exhausted over the 2.1M-string grid: exhaustive enumeration is outside this technique",
    "a version change in the same virtual instant as a batch line accepts both modes for that line",
    "junk classes the permissive parser lets through (known finding F-C05-1) are not used as invalid members here",
]
STUB = ["child process and its pipes: FakeProcess"]
SHRINK_LISTS = ["lines", "changes"]

CUTOFF = (2025, 6, 18)
NEIGH = ["2025-06-17", "2025-06-18", "2025-06-19", "2025-05-18", "2025-07-18", "2024-06-18", "2026-06-18", "2025-06-01", "2025-06-30",
         "2025-01-01", "2025-12-31", "2024-12-31", "2026-01-01", "2025-05-31", "2025-07-01", "2025-06-08", "2025-06-28", "2025-10-01", "2025-02-19"]
SUPPORTED = ["2025-06-18", "2025-03-26", "2024-11-05"]
INVALID_MEMBERS = ["int", "str", "null", "id_only", "both_result_error", "error_no_code", "method_int", "nested_nonempty", "nested_empty", "params_scalar", "id_float", "id_array", "id_object", "deep_invalid", "surrogate_invalid"]


def _rand_version(rng):
    r = rng.random()
    if r < 0.3:
        return rng.choice(SUPPORTED)
    if r < 0.65:
        return rng.choice(NEIGH)
    return f"{rng.randrange(1990, 2200):04d}-{rng.randrange(0, 100):02d}-{rng.randrange(0, 100):02d}"


def indep_batching(v) -> bool:
    if v is None:
        return True
    y, m, d = (int(x) for x in v.split("-"))
    return (y, m, d) < CUTOFF


def _member(rng, k):
    if rng.random() < 0.3:
        return {"invalid": rng.choice(INVALID_MEMBERS), "k": k}
    return {"valid": rng.choice(["request", "response", "error", "notification"]), "k": k}


def _single_member(rng, k):
    m = _member(rng, k)
    if m.get("invalid") in ("nested_nonempty", "nested_empty"):  # a top-level array is a batch line, not an invalid single message
        m["invalid"] = "id_only"
    return m


_DEEP = "leaf"
for _i in range(300):
    _DEEP = [_DEEP]


def member_json(m):
    k = m["k"]
    if "valid" in m:
        return {"request": {"jsonrpc": "2.0", "id": f"s{k}", "method": "roots/list"},
                "response": {"jsonrpc": "2.0", "id": k, "result": {"k": k}},
                "error": {"jsonrpc": "2.0", "id": k, "error": {"code": -32001, "message": f"e{k}"}},
                "notification": {"jsonrpc": "2.0", "method": "notifications/message", "params": {"data": f"n{k}"}}}[m["valid"]]
    return {"int": 5, "str": "x", "null": None, "id_only": {"jsonrpc": "2.0", "id": k},
            "both_result_error": {"jsonrpc": "2.0", "id": k, "result": {}, "error": {"code": 1, "message": "m"}},
            "error_no_code": {"jsonrpc": "2.0", "id": k, "error": {"message": "m"}},
            "method_int": {"jsonrpc": "2.0", "id": k, "method": 7},
            "nested_nonempty": [{"jsonrpc": "2.0", "method": "a/b"}], "nested_empty": [],
            "params_scalar": {"jsonrpc": "2.0", "id": k, "method": "m", "params": 3},
            # ids that are neither a string nor an integer (MCP allows nothing else)
            "id_float": {"jsonrpc": "2.0", "id": k + 0.5, "method": "roots/list"},
            "id_array": {"jsonrpc": "2.0", "id": [k], "result": {"k": k}},
            "id_object": {"jsonrpc": "2.0", "id": {"k": k}, "method": "roots/list"},
            # invalid AND awkward to re-serialise (the optional fast encoder refuses both; the stdlib does not)
            "deep_invalid": {"jsonrpc": "2.0", "id": k, "method": 7, "deep": _DEEP},
            "surrogate_invalid": {"jsonrpc": "2.0", "id": k, "method": 7, "name": "half \ud83d emoji"}}[m["invalid"]]


BOI_BATCH = [{"jsonrpc": "2.0", "method": "notifications/message", "params": {"data": "boi-a"}},
             {"jsonrpc": "2.0", "method": "notifications/message", "params": {"data": "boi-b"}}]


def _prelude_note(q):
    return {"jsonrpc": "2.0", "method": "notifications/progress", "params": {"progressToken": "p", "progress": q}}


def generate(rng: random.Random, tier: str) -> dict:
    setup = rng.choice(["none", "setter", "setter", "handshake", "handshake"])
    v0 = None if setup == "none" else _rand_version(rng)
    lines = []
    k = 0
    t = 50
    for _ in range(rng.choice([1, 2, 3, 4, 6])):
        t += rng.choice([0, 0, 1, 10, 100])
        if rng.random() < 0.65:
            members = []
            for _m in range(rng.choice([0, 1, 2, 2, 3, 4])):
                k += 1
                members.append(_member(rng, k))
            lines.append({"t": t, "batch": members, "cut": rng.choice([None, None, 1, 5, 17]), "hops": rng.choice([0, 0, 1])})
        else:
            k += 1
            lines.append({"t": t, "single": _single_member(rng, k) if rng.random() < 0.3 else {"valid": rng.choice(["request", "response", "notification"]), "k": k},
                          "cut": rng.choice([None, 3]), "hops": 0})
    changes = []
    for _ in range(rng.choice([0, 0, 1, 1, 2, 3])):
        base = rng.choice(lines)["t"]
        changes.append({"t": max(0, base + rng.choice([-5, -1, 0, 0, 1, 5])), "v": _rand_version(rng), "tie": rng.choice([0, 2]), "hops": rng.choice([0, 1, 2])})
    changes.sort(key=lambda c: c["t"])
    saturate_draw = rng.random() < 0.08
    if saturate_draw:
        changes = []  # the reader may stay blocked behind the full pipe for a long time: keep the mode constant so "mode when processed" is well defined
    return _finish({"v": 1, "setup": setup, "v0": v0, "lines": lines, "changes": changes, "uuid_seed": rng.getrandbits(40),
            "legacy_streams": rng.choice([None, None, None, "open", "closed"]),
            # handshake only: the client proposes another version and the server counter-proposes v0 (both in the client's list)
            "proposed_other": (rng.choice(["2025-06-18", "2025-03-26", "2024-11-05", "2025-06-17", "2026-01-01"]) if setup == "handshake" and rng.random() < 0.5 else None),
            "big_frame": rng.random() < 0.5,
            "batch_on_initialized": (rng.choice([0, 1, 10, 40]) if setup == "handshake" and rng.random() < 0.3 else None),
            # through the Transport wrapper, possibly re-entered after an earlier connection that had negotiated another version
            "via_transport": ({"earlier_version": rng.choice([None, "2025-06-18", "2025-06-18", "2025-03-26", "2026-01-01"])} if rng.random() < 0.2 else None),
            # nobody reads StdioClient.notifications (stdio_client() does not even expose it) and >= 100 notifications arrived earlier
            "undrained": (rng.choice([99, 100, 101, 120]) if rng.random() < 0.06 else None),
            "saturate": ({"n": rng.choice([101, 105, 130]), "resume_at": max(ln["t"] for ln in lines) + rng.choice([5, 50, 400])} if saturate_draw else None)})


def _finish(scn):
    if scn.get("batch_on_initialized") is not None:
        # keep this family apart from the ones that change what "arrives first" or block the reply path
        scn["undrained"] = None
        scn["saturate"] = None
        scn["legacy_streams"] = None
    return scn


def simplify(scn):
    if scn.get("batch_on_initialized") is not None:
        c = copy.deepcopy(scn); c["batch_on_initialized"] = None; yield c
    if scn.get("proposed_other"):
        c = copy.deepcopy(scn); c["proposed_other"] = None; yield c
    if scn.get("saturate"):
        c = copy.deepcopy(scn); c["saturate"] = None; yield c
    if scn.get("undrained"):
        c = copy.deepcopy(scn); c["undrained"] = None; yield c
    if scn.get("via_transport"):
        c = copy.deepcopy(scn); c["via_transport"] = None; yield c
    if scn.get("legacy_streams"):
        c = copy.deepcopy(scn); c["legacy_streams"] = None; yield c
    if scn["setup"] == "handshake":
        c = copy.deepcopy(scn); c["setup"] = "setter"; yield c
    for i, ln in enumerate(scn["lines"]):
        if ln.get("cut") is not None:
            c = copy.deepcopy(scn); c["lines"][i]["cut"] = None; yield c
        if ln.get("hops"):
            c = copy.deepcopy(scn); c["lines"][i]["hops"] = 0; yield c
        if "batch" in ln and len(ln["batch"]) > 1:
            for j in range(len(ln["batch"])):
                c = copy.deepcopy(scn); c["lines"][i]["batch"].pop(j); yield c
    for i, ch in enumerate(scn["changes"]):
        if ch.get("hops"):
            c = copy.deepcopy(scn); c["changes"][i]["hops"] = 0; yield c


def execute(scn: dict) -> dict:
    stdio = importlib.import_module("chuk_mcp.transports.stdio.stdio_client")
    ini = importlib.import_module("chuk_mcp.protocol.messages.initialize.send_messages")
    from chuk_mcp.transports.stdio.parameters import StdioParameters
    from chuk_mcp.protocol.features.batching import supports_batching
    from chuk_mcp.protocol.types.versioning import ProtocolVersion

    fu = FakeUUID(scn["uuid_seed"])
    st = {"read": [], "notif": [], "ver_log": []}
    T_BASE = 0.0

    async def main(sim):
        def responder(line: bytes):
            try:
                o = json.loads(line)
            except Exception:
                return []
            if isinstance(o, dict) and o.get("method") == "initialize":
                res = {"jsonrpc": "2.0", "id": o["id"], "result": {"protocolVersion": scn["v0"], "capabilities": {}, "serverInfo": {"name": "sim", "version": "1"}}}
                return [(ticks(2), [json.dumps(res).encode() + b"\n"])]
            if isinstance(o, dict) and o.get("method") == "notifications/initialized" and scn.get("batch_on_initialized") is not None:
                # the server considers the handshake complete the moment it has read this notification and sends a batch right away
                st["boi_sent_at"] = sim.now() + ticks(scn["batch_on_initialized"])
                sim.probe("batch_sent_right_after_initialized_was_read")
                return [(ticks(scn["batch_on_initialized"]), [json.dumps(BOI_BATCH).encode() + b"\n"])]
            return []

        factory = ProcessFactory(sim, lambda idx, argv, env: {"read_mode": "eager", "responder": responder})
        with patched((anyio, "open_process", factory), (_uuid, "uuid4", fu)):
            from contextlib import AsyncExitStack
            vt = scn.get("via_transport")
            async with AsyncExitStack() as stack:
                if vt:
                    from chuk_mcp.transports.stdio.transport import StdioTransport
                    tr = StdioTransport(StdioParameters(command="sim-child", args=[]))
                    if vt.get("earlier_version"):
                        # an earlier connection over the same transport object negotiated some version and was closed again
                        async with tr:
                            tr.set_protocol_version(vt["earlier_version"])
                            await anyio.sleep(ticks(3))
                        sim.probe("transport_object_reentered_after_versioned_connection")
                    await stack.enter_async_context(tr)
                    client = tr._client
                else:
                    client = stdio.StdioClient(StdioParameters(command="sim-child", args=[]))
                    await stack.enter_async_context(client)
                child = factory.children[-1]
                st["child"] = child
                read_stream, write_stream = client.get_streams()

                async def drain(stream, into):
                    async for m in stream:
                        into.append((sim.now(), m))

                def set_version(v, why):
                    (tr if vt else client).set_protocol_version(v)
                    st["ver_log"].append((sim.rec("env", "set-version", v), sim.now(), v, why))

                if scn["setup"] == "setter":
                    set_version(scn["v0"], "setter")
                elif scn["setup"] == "handshake":
                    # the handshake consumes its own answer from the read stream, so do it before the drains start
                    sup = [scn["v0"]]
                    if scn.get("proposed_other") and scn["proposed_other"] != scn["v0"]:
                        sup = [scn["proposed_other"], scn["v0"]]  # proposes proposed_other; the server answers v0 (a counter-proposal)
                        st["counter_proposal"] = True
                    res = await ini.send_initialize_with_client_tracking(read_stream, write_stream, client=client, timeout=5.0,
                                                                         supported_versions=sup)
                    st["ver_log"].append((sim.rec("env", "handshake-done", scn["v0"]), sim.now(), str(res.protocolVersion), "handshake"))
                    st["handshake"] = True
                if scn.get("legacy_streams"):
                    # legacy one-shot streams registered for every response id the server is going to send (some abandoned)
                    for ln in scn["lines"]:
                        for m in (ln.get("batch") or ([ln["single"]] if "single" in ln else [])):
                            if m.get("valid") in ("response", "error"):
                                rs = client.new_request_stream(str(m["k"]))
                                if scn["legacy_streams"] == "closed":
                                    rs.close()
                    st["legacy"] = True
                if scn.get("saturate"):
                    # the server stops reading its stdin while the client keeps queueing: the outgoing queue (100) and the pipe fill up
                    child.capacity = 64
                    child.pause_reading(True)
                    sent_f = 0
                    if scn.get("big_frame"):
                        # a frame well over 64 KiB goes first: the writer is inside it (blocked on the full pipe) when the batch arrives
                        write_stream.send_nowait({"jsonrpc": "2.0", "method": "filler/noop", "params": {"pad": "x" * 200_000}})
                        await anyio.sleep(0)
                    for q in range(scn["saturate"]["n"]):
                        try:
                            write_stream.send_nowait({"jsonrpc": "2.0", "method": "filler/noop", "params": {"q": q}})
                            sent_f += 1
                        except anyio.WouldBlock:
                            await anyio.sleep(0)  # let the writer take one item, then go on
                    st["fillers"] = sent_f

                    sim.at(sim.now() + ticks(scn["saturate"]["resume_at"]), child.pause_reading, False, tie=2)
                    sim.fault("outgoing_queue_saturated")
                base = sim.now()
                st["base"] = base
                if scn.get("undrained"):
                    pre = b"".join(json.dumps(_prelude_note(q)).encode() + b"\n" for q in range(scn["undrained"]))
                    sim.at(base + ticks(10), child.write_stdout, [pre[:777], pre[777:]], tie=0)
                    sim.fault("notification_side_stream_never_read")
                for ch in scn["changes"]:
                    sim.at(base + ticks(ch["t"]), set_version, ch["v"], "change", tie=ch["tie"], hops=ch["hops"])
                for i, ln in enumerate(scn["lines"]):
                    payload = [member_json(m) for m in ln["batch"]] if "batch" in ln else member_json(ln["single"])
                    data = json.dumps(payload).encode() + b"\n"
                    cut = ln.get("cut")
                    pieces = [data[:cut], data[cut:]] if cut and 0 < cut < len(data) else [data]
                    sim.at(base + ticks(ln["t"]), child.write_stdout, pieces, tie=0, hops=ln["hops"])
                last = max([ln["t"] for ln in scn["lines"]] + [c["t"] for c in scn["changes"]] + [0] + ([scn["saturate"]["resume_at"]] if scn.get("saturate") else []))
                async with anyio.create_task_group() as tg:
                    tg.start_soon(drain, read_stream, st["read"], name="drain-read")
                    if not scn.get("undrained"):
                        tg.start_soon(drain, client.notifications, st["notif"], name="drain-notif")
                    await anyio.sleep(ticks(last) + 1.0)
                    tg.cancel_scope.cancel()
                st["stdin_lines"] = list(child.lines_in)
                st["final_info"] = client.get_batching_info()

    info = run_sim(main, max_steps=300_000, max_vtime=1000.0)
    sim = info.sim
    out = {"violations": [], "digest": sim.digest(), "isig": sim.isig(), "faults": dict(sim.faults),
           "probes": dict(sim.probes), "vtime": info.vtime, "steps": info.steps, "harness": list(sim.harness_errors),
           "nontrivial": False, "history": None}
    if info.deadlock or info.limit or info.exc is not None or "stdin_lines" not in st:
        out["harness"].append(f"run did not complete: deadlock={info.deadlock} limit={info.limit} exc={info.exc!r}")
        return out

    def V(cls, sig, msg):
        out["violations"].append({"cls": f"C13/{cls}", "sig": f"C13/{cls}:{sig}", "msg": msg})

    def probe(k):
        out["probes"][k] = out["probes"].get(k, 0) + 1

    # ---- decision function: independent compare vs supports_batching vs ProtocolVersion.compare --------
    versions = {scn["v0"]} | {c["v"] for c in scn["changes"]}
    versions.discard(None)
    sample = sorted(versions)
    for v in sample:
        ind = indep_batching(v)
        lib = supports_batching(v)
        cmpv = ProtocolVersion.compare(v, "2025-06-18")
        if lib != ind:
            V("decision", "supports_batching-vs-date", f"supports_batching({v!r})={lib} but {v} {'<' if ind else '>='} 2025-06-18")
        if (cmpv < 0) != ind:
            V("decision", "compare-vs-date", f"ProtocolVersion.compare({v!r}, cutoff)={cmpv} disagrees with the date order")
        if lib != (cmpv < 0):
            V("decision", "supports_batching-vs-compare", f"supports_batching({v!r})={lib} disagrees with ProtocolVersion.compare={cmpv}")
        if v in NEIGH:
            probe("cutoff_neighbour_version")
    flags = [supports_batching(v) for v in sorted(sample, key=lambda s: tuple(int(x) for x in s.split("-")))]
    if any((not a) and b for a, b in zip(flags, flags[1:])):
        V("decision", "not-monotone", f"supports_batching is not monotone over {sample}")
    if supports_batching(None) is not True:
        V("decision", "none-version", "no negotiated version must mean batching")

    # ---- transport behaviour ------------------------------------------------------------------
    base = st["base"]
    ver_events = st["ver_log"]  # (eseq, t, v, why)
    def modes_at(t_line):
        """set of possible batching modes when a line arriving at absolute time t_line is processed"""
        cur = None
        poss = None
        for (_e, t, v, _w) in ver_events:
            if t < t_line:
                cur = v
        poss = {indep_batching(cur)}
        same = [v for (_e, t, v, _w) in ver_events if t == t_line]
        for v in same:
            poss.add(indep_batching(v))
        return poss, bool(same)

    boi = None
    if scn.get("batch_on_initialized") is not None and st.get("boi_sent_at") is not None:
        # once the server has READ notifications/initialized the negotiated version is in force on both sides - whenever the client
        # library gets round to writing it down
        boi = ([], 1) if not indep_batching(scn["v0"]) else (list(BOI_BATCH), 0)
    segs = []  # per line: list of alternatives (read_seq, stdin_count)
    if boi is not None:
        segs.append([boi])   # arrives before everything else (the other lines start 50 ticks after the handshake)
    if scn.get("undrained"):
        segs.append([([_prelude_note(q) for q in range(scn["undrained"])], 0)])
        if scn["undrained"] >= 100:
            probe("notification_side_stream_full")
    any_batch = False
    # the child writes lines in (time, loop-iteration offset, index) order
    ordered_lines = [ln for (_k, ln) in sorted(enumerate(scn["lines"]), key=lambda p: (p[1]["t"], p[1]["hops"], p[0]))]
    for ln in ordered_lines:
        t_line = base + ticks(ln["t"])
        if "single" in ln:
            m = ln["single"]
            segs.append([([member_json(m)] if "valid" in m else [], 0)])
            continue
        any_batch = True
        poss, same = modes_at(t_line)
        if same:
            probe("version_change_same_instant_as_batch")
        alts = []
        for mode in sorted(poss):
            if mode:
                alts.append(([member_json(m) for m in ln["batch"] if "valid" in m], 0))
            else:
                alts.append(([], 1))
        segs.append(alts)
        if not ln["batch"]:
            probe("empty_batch")
        if any("invalid" in m for m in ln["batch"]) and True in poss:
            probe("invalid_member_dropped")
    got = []
    for (_t, m) in st["read"]:
        if hasattr(m, "model_dump"):
            d = m.model_dump()
            got.append({k: v for k, v in d.items() if v is not None})
        else:
            got.append(("<non-message>", repr(m)[:80]))
    # the handshake's initialized notification etc. are on stdin too: keep only error lines / anything after the handshake
    stdin_objs = []
    for raw in st["stdin_lines"]:
        try:
            stdin_objs.append(json.loads(raw))
        except Exception:
            stdin_objs.append({"<unparsable>": raw[:80].decode("utf-8", "replace")})
            V("transport", "garbage-on-stdin", f"a line on the child's stdin is not JSON (frames interleaved?): {raw[:80]!r}")
    back = [o for o in stdin_objs if not (isinstance(o, dict) and o.get("method") in ("initialize", "notifications/initialized", "filler/noop"))]
    matched = None
    for combo in itertools.product(*segs):
        exp_read = [x for (r, _n) in combo for x in r]
        exp_err = sum(n for (_r, n) in combo)
        if exp_read == got and exp_err == len(back):
            matched = combo
            break
    nrej = sum(1 for alts in segs for (r, n) in alts[:1] if n)
    if matched is None:
        combo = tuple(alts[0] for alts in segs)
        exp_read = [x for (r, _n) in combo for x in r]
        exp_err = sum(n for (_r, n) in combo)
        if len(back) != exp_err:
            cause = "error-count" if len(back) > exp_err else "rejection-not-answered"
            if exp_err == 0 and back:
                cause = "rejected-in-batching-mode"
        elif len(got) > len(exp_read):
            cause = "member-delivered-in-non-batching-mode" if exp_err else "extra-delivered"
        elif len(got) < len(exp_read):
            cause = "member-lost-in-batching-mode"
        else:
            cause = "order-or-content"
        V("transport", cause, f"read stream {got!r:.300} / written back {back!r:.200}; expected (one alternative) read={exp_read!r:.300} errors={exp_err}; "
                              f"versions={[(t, v) for (_e, t, v, _w) in ver_events]}")
    for o in back:
        if not (isinstance(o, dict) and isinstance(o.get("error"), dict) and o["error"].get("code") == -32600 and o.get("jsonrpc") == "2.0"
                and "result" not in o and "method" not in o):
            V("transport", "rejection-shape", f"line written back for a rejected batch is not a -32600 error: {o!r:.200}")
    if matched is not None:
        for (r, n) in matched:
            pass
        if any(n for (_r, n) in matched):
            probe("batch_rejected"); out["faults"]["batch_in_non_batching_mode"] = sum(n for (_r, n) in matched)
        if any_batch and any((n == 0) for alts, (r, n) in zip(segs, matched) if len(alts) >= 1 and any(a[1] for a in alts) is False):
            pass
    if any_batch and any(alts[0][1] == 0 and "batch" in ln for alts, ln in zip(segs, ordered_lines)):
        probe("batch_accepted")
    modes_seq = [indep_batching(v) for (_e, _t, v, _w) in ver_events]
    if any(a != b for a, b in zip(modes_seq, modes_seq[1:])):
        probe("mode_flipped_mid_connection")
    if st.get("counter_proposal"):
        probe("handshake_counter_proposal")
    if st.get("legacy"):
        probe("legacy_request_streams_registered")
    if scn.get("saturate") and matched is not None and any(n_ for (_r, n_) in matched):
        probe("rejection_while_outgoing_saturated")
    if st.get("handshake"):
        probe("handshake_set_version")
        fi = st["final_info"]
    # tracked mode after everything = mode of the last version set
    if ver_events:
        lastv = ver_events[-1][2]
        if st["final_info"]["batching_enabled"] != indep_batching(lastv) or st["final_info"]["protocol_version"] != lastv:
            # several changes in the same instant with hops may reorder; compare against the eseq-last one (ver_log is in execution order)
            V("transport", "tracked-mode", f"client reports {st['final_info']} after last version {lastv!r}")
    stratum = "none" if scn["v0"] is None else ("supported" if scn["v0"] in SUPPORTED else ("neighbour" if scn["v0"] in NEIGH else "random"))
    out["nontrivial"] = any_batch
    out["isig"] = out["isig"] + ":" + stratum
    out["history"] = {"setup": scn["setup"], "v0": scn["v0"], "versions": [(t, v, w) for (_e, t, v, w) in ver_events],
                      "lines": [(base + ticks(ln["t"]), "batch" if "batch" in ln else "single") for ln in scn["lines"]],
                      "read": got[:12], "written_back": back[:4]}
    return out
