"""C06 - stdio outbound framing: one message, one line, in order, content preserved.

SUT: real StdioClient._stdin_writer via the write stream, on a FakeProcess.
Environment: 1..3 producer tasks, child reading slowly / stalling (back-pressure), tiny pipe
capacities, unserialisable items at any position, child closing stdin mid-stream (fault family).
Oracle: reference encoder over the items in the order the write stream accepted them.
"""
from __future__ import annotations

import copy
import importlib
import json
import random

import anyio

from sim.loop import run_sim, ticks
from sim.streams import RecSend, patched
from sim.fakes.process import ProcessFactory

ID = "C06"
LEVEL = "exploration"
RULE = ("scenario = 1..3 producers x 1..10 items each (typed messages of the four envelope classes + legacy class, plain dicts, "
        "pre-serialised strings, unserialisable objects) x child read behaviour (eager/slow/stall windows) x pipe capacity x close instant; "
        "non-trivial = a send blocked on back-pressure, or an unserialisable item preceded a serialisable one, or >= 2 producers interleaved")
PROBES = ["host_pretty_printed_something_first", "queued_through_send_json", "typed_object_changed_in_place_and_sent_again", "child_closed_stdout_keeps_reading", "unencodable_string_item", "value_rejected_by_fast_json_backend", "frame_over_64k", "inbound_batch_rejected_during_writes", "stdin_send_blocked", "unserialisable_before_valid", "producers_interleaved", "payload_with_line_breaks", "closed_while_backlog"]
TIERS = {"quick": {"runs": 15000, "wall": 45.0}, "thorough": {"runs": 800000, "wall": 560.0}}
ASSUMPTIONS = [
    "order 'sent' = order in which the (real, FIFO) write stream accepted the items",
    "fault family (child closes its stdin mid-stream): items after the break may be lost; what the child received must still be a whole-line, in-order prefix",
    "real kernel pipe behaviour is modelled, not observed",
]
STUB = ["child process and its stdin pipe: FakeProcess (capacity / drain semantics of asyncio's StreamWriter are modelled)"]
SHRINK_LISTS = ["items"]

TEXTS = ["plain", "line\nbreak", "cr\rlf\r\n", "ls\u2028ps\u2029nel\u0085", "nul\u0000", "q\"uote\\back", "\U0001F600 astral", "é€", ""]
UNSER = ["object", "set_in_dict", "bytes", "circular", "typed_with_object", "int_item", "none_item", "str_lone_surrogate", "str_pretty_escaped_surrogate"]


def _gen_item(rng, k):
    t = rng.choice(TEXTS)
    shape = rng.choice(["typed_request", "typed_notification", "typed_response", "typed_error", "legacy", "dict", "dict",
                        "str_compact", "str_compact", "str_pretty", "str_trailing_nl", "unser"])
    mid = rng.choice([k, f"id-{k}", 0, -k])
    it = {"shape": shape, "k": k}
    if shape == "unser":
        it["what"] = rng.choice(UNSER)
        return it
    kind = {"typed_request": "request", "typed_notification": "notification", "typed_response": "response", "typed_error": "error"}.get(
        shape, rng.choice(["request", "notification", "response", "error"]))
    if kind == "request":
        o = {"jsonrpc": "2.0", "id": mid, "method": "tools/call", "params": {"name": "t", "arguments": {"text": t, "n": None, "k": k}}}
        if rng.random() < 0.2:
            del o["params"]
    elif kind == "notification":
        o = {"jsonrpc": "2.0", "method": "notifications/progress", "params": {"progressToken": k, "message": t}}
    elif kind == "response":
        o = {"jsonrpc": "2.0", "id": mid, "result": {"content": [{"type": "text", "text": t}], "k": k, "nul": None}}
    else:
        o = {"jsonrpc": "2.0", "id": mid, "error": {"code": -32000 - k, "message": t or "m", "data": {"k": k}}}
    if rng.random() < 0.06:
        it["big"] = rng.choice([70_000, 140_000, 300_000])
    if rng.random() < 0.12 and shape in ("dict", "str_compact", "str_pretty", "str_trailing_nl"):
        # only for shapes encoded by the library's own JSON layer (typed models go through pydantic, which has its own limits)
        it["exotic"] = rng.choice(["int_2_64", "int_neg_big", "int_1e30", "deep_nesting"])
    it["obj"] = o
    if shape == "str_compact":
        it["ensure_ascii"] = rng.random() < 0.3
    return it


def generate(rng: random.Random, tier: str) -> dict:
    big = tier == "thorough"
    nprod = rng.choice([1, 1, 2, 3])
    items = []
    k = 0
    for p in range(nprod):
        for _ in range(rng.choice([1, 2, 3, 5, 10] if big else [1, 2, 3, 5])):
            k += 1
            it = _gen_item(rng, k)
            it["producer"] = p
            it["delay"] = rng.choice([0, 0, 0, 1, 3, 20])
            if it["shape"].startswith("typed_") or it["shape"] in ("dict", "legacy"):
                if rng.random() < 0.12:
                    it["via"] = "send_json"   # queued through StdioClient.send_json() instead of the write stream
            items.append(it)
    rng.shuffle(items)
    # a typed message object that was already sent is changed in place (not by assigning a field) and sent again by the same producer
    for i in range(len(items) - 1, -1, -1):
        it = items[i]
        if it["shape"].startswith("typed_") and not it.get("big") and rng.random() < 0.12:
            k += 1
            items.insert(rng.randrange(i + 1, len(items) + 1), {"shape": "resend", "k": k, "base": copy.deepcopy(it), "bump": rng.randrange(2, 99),
                                                               "producer": it["producer"], "delay": rng.choice([0, 0, 1, 3])})
    read_mode = rng.choice(["eager", "eager", "slow", "slow", "stall"])
    fault = None
    closes_stdout = None
    if rng.random() < 0.12:
        fault = {"kind": rng.choice(["child_closes_stdin", "child_exits"]), "t": rng.randrange(0, 120)}
    closes_stdout = None if fault else (rng.randrange(0, 60) if rng.random() < 0.12 else None)
    read_bytes = rng.choice([1, 7, 64, 300])
    read_every = rng.choice([1, 2, 10])
    if any(it.get("big") for it in items):
        # keep virtual drain time (and simulator steps) bounded: a slow child still reads 4..32 KiB per tick
        read_bytes = rng.choice([4096, 32768])
        read_every = 1
    version = rng.choice([None, None, "2025-06-18", "2025-03-26"])
    inbound = [{"t": rng.randrange(0, 300), "hops": rng.choice([0, 1, 2, 3])} for _ in range(rng.choice([0, 0, 1, 2, 4]))] if version == "2025-06-18" else []
    if rng.random() < 0.06:
        # a long run of messages that cannot be serialised, with only responses / raw strings (no request or notification) delivered in between
        run = []
        for q in range(rng.choice([5, 6, 8])):
            k += 1
            run.append({"shape": "unser", "k": k, "what": rng.choice(["object", "set_in_dict", "circular", "typed_with_object"]), "producer": 0, "delay": 0})
            if rng.random() < 0.4:
                k += 1
                it = _gen_item(rng, k)
                it["shape"] = rng.choice(["typed_response", "str_compact"])
                it["obj"] = {"jsonrpc": "2.0", "id": k, "result": {"k": k}}
                it.pop("exotic", None); it.pop("big", None)
                it["producer"], it["delay"] = 0, 0
                run.append(it)
        tail = []
        for q in range(3):
            k += 1
            it = _gen_item(rng, k)
            if it["shape"] in ("unser", "resend"):
                it = {"shape": "dict", "k": k, "obj": {"jsonrpc": "2.0", "method": "notifications/progress", "params": {"progressToken": k, "message": "after the run"}}}
            it["producer"], it["delay"] = 0, 0
            it.pop("big", None); it.pop("exotic", None)   # (the read pace was chosen before this family was added: keep the tail small)
            tail.append(it)
        items = [x for x in items if x["producer"] != 0] + run + tail
    # the server is chatty and this client only writes: more unread inbound messages than the read stream buffers
    inbound_flood = rng.choice([120, 101, 250]) if rng.random() < 0.1 else 0
    # the hosting process also formats something with indent= through the library's JSON layer (MCPServer does for dict tool results)
    return {"v": 1, "pretty_dump_first": rng.random() < 0.15, "inbound_flood": inbound_flood, "child_closes_stdout_at": closes_stdout if fault is None else None, "version": version, "inbound_batches": inbound, "items": items, "read_mode": read_mode, "read_every": read_every, "read_bytes": read_bytes,
            "capacity": rng.choice([1, 16, 100, 1000, 65536]), "stall": [rng.randrange(0, 50), rng.randrange(10, 400)],
            "close_at": rng.choice([None, None, 0, 5, 50]), "fault": fault}


def simplify(scn):
    if scn.get("pretty_dump_first"):
        c = copy.deepcopy(scn); c["pretty_dump_first"] = False; yield c
    if scn.get("inbound_flood"):
        c = copy.deepcopy(scn); c["inbound_flood"] = 0; yield c
    for i, it in enumerate(scn["items"]):
        if it.get("via"):
            c = copy.deepcopy(scn); del c["items"][i]["via"]; yield c
    for i, it in enumerate(scn["items"]):
        if it["shape"] == "resend":
            c = copy.deepcopy(scn); c["items"].pop(i); yield c
    if scn.get("child_closes_stdout_at") is not None:
        c = copy.deepcopy(scn); c["child_closes_stdout_at"] = None; yield c
    if scn.get("inbound_batches"):
        c = copy.deepcopy(scn); c["inbound_batches"] = []; yield c
    for i, it in enumerate(scn["items"]):
        if it.get("big"):
            c = copy.deepcopy(scn); del c["items"][i]["big"]; yield c
        if it.get("exotic"):
            c = copy.deepcopy(scn); del c["items"][i]["exotic"]; yield c
    if scn["fault"]:
        c = copy.deepcopy(scn); c["fault"] = None; yield c
    if scn["read_mode"] != "eager":
        c = copy.deepcopy(scn); c["read_mode"] = "eager"; yield c
    if scn["capacity"] != 65536:
        c = copy.deepcopy(scn); c["capacity"] = 65536; yield c
    if scn["close_at"] is not None:
        c = copy.deepcopy(scn); c["close_at"] = None; yield c
    for i, it in enumerate(scn["items"]):
        if it.get("delay"):
            c = copy.deepcopy(scn); c["items"][i]["delay"] = 0; yield c
        if it.get("producer"):
            c = copy.deepcopy(scn); c["items"][i]["producer"] = 0; yield c


def _mutate_in_place(d, bump):
    """the same edit on a typed object's payload dicts and on the expected JSON value"""
    if isinstance(d.get("params"), dict):
        if isinstance(d["params"].get("arguments"), dict):
            d["params"]["arguments"]["attempt"] = bump
        else:
            d["params"]["message"] = f"again-{bump}"
    elif isinstance(d.get("result"), dict):
        d["result"]["k"] = bump
    elif isinstance(d.get("error"), dict) and isinstance(d["error"].get("data"), dict):
        d["error"]["data"]["k"] = bump
    else:
        return False
    return True


def _materialise(it, registry=None):
    """-> (python object to send, expected decoded JSON value or None if unserialisable)"""
    if it["shape"] == "resend":
        base = it["base"]
        obj = registry.get(base["k"]) if registry is not None else None
        fresh_obj, exp = _materialise(base)
        if obj is None:
            obj = fresh_obj
        exp = copy.deepcopy(exp)
        _mutate_in_place(exp, it["bump"])
        view = {"params": getattr(obj, "params", None), "result": getattr(obj, "result", None), "error": getattr(obj, "error", None)}
        _mutate_in_place(view, it["bump"])
        return obj, exp
    from chuk_mcp.protocol.messages.json_rpc_message import (JSONRPCRequest, JSONRPCNotification, JSONRPCResponse, JSONRPCError,
                                                              JSONRPCMessage)
    sh = it["shape"]
    if sh == "unser":
        w = it["what"]
        if w == "object":
            return object(), None
        if w == "set_in_dict":
            return {"jsonrpc": "2.0", "method": "x", "params": {"s": {1, 2}}}, None
        if w == "bytes":
            return b'{"jsonrpc":"2.0","method":"x"}', None
        if w == "circular":
            d = {"jsonrpc": "2.0", "method": "x"}
            d["params"] = {"self": d}
            return d, None
        if w == "typed_with_object":
            return JSONRPCRequest(id=1, method="x", params={"o": object()}), None
        if w == "int_item":
            return 12345, 12345  # json.dumps(12345) is valid JSON: it is serialisable, one line
        if w == "none_item":
            return None, None  # json.dumps(None) -> "null": a line "null"; accept either (see oracle)
        if w == "str_lone_surrogate":
            # a pre-serialised string that cannot be encoded as UTF-8 (e.g. a surrogate-escaped file name dumped with ensure_ascii=False)
            return '{"jsonrpc":"2.0","method":"x","params":{"path":"bad\udcffname"}}', None
        if w == "str_pretty_escaped_surrogate":
            return '{\n  "jsonrpc": "2.0",\n  "method": "x",\n  "params": {"path": "bad\\udcffname"}\n}', "surrogate-optional"
    o = it["obj"]
    if it.get("big"):
        o = copy.deepcopy(o)
        o["pad"] = ("é€\u2028" * (it["big"] // 3))[: it["big"]]
    if it.get("exotic"):
        # legal JSON that the optional fast encoder (orjson) refuses, so the stdlib fallback path is taken
        o = copy.deepcopy(o)
        if it["exotic"] == "deep_nesting":
            v = "leaf"
            for _ in range(300):
                v = [v]
            o["x_deep"] = v
        else:
            o["x_int"] = {"int_2_64": 2 ** 64, "int_neg_big": -(2 ** 63) - 1, "int_1e30": 10 ** 30}[it["exotic"]]
    if sh == "dict":
        return copy.deepcopy(o), o
    if sh == "str_compact":
        return json.dumps(o, ensure_ascii=it.get("ensure_ascii", False), separators=(",", ":")), o
    if sh == "str_pretty":
        return json.dumps(o, ensure_ascii=False, indent=2), o
    if sh == "str_trailing_nl":
        return json.dumps(o, ensure_ascii=False) + "\n", o
    if sh == "legacy":
        return JSONRPCMessage.model_validate(copy.deepcopy(o)), o
    cls = {"typed_request": JSONRPCRequest, "typed_notification": JSONRPCNotification, "typed_response": JSONRPCResponse,
           "typed_error": JSONRPCError}[sh]
    if it["k"] % 3 == 0:
        # built directly, relying on the model's default for "jsonrpc" (the member still belongs on the wire)
        return cls(**{k_: v_ for k_, v_ in copy.deepcopy(o).items() if k_ != "jsonrpc"}), o
    return cls.model_validate(copy.deepcopy(o)), o


def execute(scn: dict) -> dict:
    stdio = importlib.import_module("chuk_mcp.transports.stdio.stdio_client")
    from chuk_mcp.transports.stdio.parameters import StdioParameters

    st = {"sent": [], "closed_write": None}

    async def main(sim):
        def cfg(idx, argv, env):
            return {"read_mode": "eager" if scn["read_mode"] == "stall" else scn["read_mode"], "read_every": ticks(scn["read_every"]),
                    "read_bytes": scn["read_bytes"], "capacity": scn["capacity"], "exit_on_stdin_eof": True, "eof_exit_latency": ticks(2)}

        factory = ProcessFactory(sim, cfg)
        st["factory"] = factory
        with patched((anyio, "open_process", factory)):
            client = stdio.StdioClient(StdioParameters(command="sim-child", args=[]))
            if scn.get("version"):
                client.set_protocol_version(scn["version"])
            async with client:
                child = factory.children[0]
                st["child"] = child
                for b in scn.get("inbound_batches", []):
                    # a server batch arriving while the writer is busy: at a non-batching version the reader answers it on the same stdin
                    sim.at(sim.now() + ticks(b["t"]), child.write_stdout, [b'[{"jsonrpc":"2.0","method":"notifications/message","params":{"data":"b"}}]\n'],
                           tie=0, hops=b["hops"])
                _read, write = client.get_streams()
                ws = RecSend(sim, write)
                st["ws"] = ws
                if scn.get("pretty_dump_first"):
                    from chuk_mcp.protocol import fast_json as _fj
                    _fj.dumps({"tool": "result", "rows": [1, 2, {"k": None}]}, indent=2)
                    sim.probe("host_pretty_printed_something_first")
                if scn.get("inbound_flood"):
                    child.write_stdout([b"".join(b'{"jsonrpc":"2.0","method":"notifications/message","params":{"data":"chatter-%d"}}\n' % q
                                                 for q in range(scn["inbound_flood"]))])
                    sim.fault("read_stream_full_of_unread_inbound_messages")
                    await anyio.sleep(ticks(2))
                if scn["read_mode"] == "stall":
                    sim.at(sim.now() + ticks(scn["stall"][0]), child.pause_reading, True)
                    sim.at(sim.now() + ticks(scn["stall"][0] + scn["stall"][1]), child.pause_reading, False)
                if scn.get("child_closes_stdout_at") is not None:
                    # a one-way sink server: it closes its stdout early but keeps reading its stdin (not a fault for the outbound side)
                    sim.at(sim.now() + ticks(scn["child_closes_stdout_at"]), child.close_stdout, tie=2)
                    sim.probe("child_closed_stdout_keeps_reading")
                if scn["fault"]:
                    f = scn["fault"]
                    fn = child.close_stdin_child_side if f["kind"] == "child_closes_stdin" else (lambda: child.exit(1))
                    sim.at(sim.now() + ticks(f["t"]), fn, tie=2)
                    sim.fault(f["kind"])

                nprod = 1 + max((it["producer"] for it in scn["items"]), default=0)

                async def producer(p):
                    registry = {}
                    for it in scn["items"]:
                        if it["producer"] != p:
                            continue
                        if it["delay"]:
                            await anyio.sleep(ticks(it["delay"]))
                        if it["shape"] == "resend":
                            # only once the first copy has left the queue (the writer serialises an item the moment it takes it);
                            # changing an object that is still queued is the caller's own race, not the writer's
                            waited = 0
                            while write.statistics().current_buffer_used > 0 and waited < 3000:
                                await anyio.sleep(ticks(5))
                                waited += 5
                            if write.statistics().current_buffer_used > 0:
                                st.setdefault("resend_skipped", set()).add(it["k"])
                                continue
                            await anyio.sleep(ticks(1))
                        obj, exp = _materialise(it, registry)
                        if it["shape"].startswith("typed_"):
                            registry[it["k"]] = obj
                        if it["shape"] == "resend":
                            sim.probe("typed_object_changed_in_place_and_sent_again")
                        try:
                            if it.get("via") == "send_json":
                                from sim.streams import task_name as _tn
                                await client.send_json(obj)
                                ws.items.append((sim.rec("client", "write", None), sim.now(), _tn(), obj))
                                sim.probe("queued_through_send_json")
                            else:
                                await ws.send(obj)
                        except (anyio.ClosedResourceError, anyio.BrokenResourceError):
                            sim.rec(f"producer-{p}", "send-refused", None)
                            return

                async with anyio.create_task_group() as tg:
                    for p in range(nprod):
                        tg.start_soon(producer, p, name=f"producer-{p}")
                    if scn["close_at"] is not None:
                        await anyio.sleep(ticks(scn["close_at"]))
                        st["backlog_at_close"] = child.in_buffered + write.statistics().current_buffer_used
                        await write.aclose()
                        st["closed_write"] = sim.now()
                        sim.rec("client", "write-stream-closed", None)
                if st["closed_write"] is None:
                    st["backlog_at_close"] = child.in_buffered + write.statistics().current_buffer_used
                    await write.aclose()
                    st["closed_write"] = sim.now()
                    sim.rec("client", "write-stream-closed", None)
                # generous quiescence: slow children need time to drain
                await anyio.sleep(600.0)
                st["stdin_closed"] = child.parent_closed_stdin
                st["received"] = bytes(child.received)
                st["blocked"] = sim.probes.get("stdin_send_blocked", 0)

    info = run_sim(main, max_steps=2_000_000, max_vtime=5000.0)
    sim = info.sim
    out = {"violations": [], "digest": sim.digest(), "isig": sim.isig(), "faults": dict(sim.faults),
           "probes": dict(sim.probes), "vtime": info.vtime, "steps": info.steps, "harness": list(sim.harness_errors),
           "nontrivial": False, "history": None}
    if info.deadlock or info.limit or info.exc is not None or "received" not in st:
        out["harness"].append(f"run did not complete: deadlock={info.deadlock} limit={info.limit} exc={info.exc!r}")
        return out

    def V(cls, sig, msg):
        out["violations"].append({"cls": f"C06/{cls}", "sig": f"C06/{cls}:{sig}", "msg": msg})

    def probe(k):
        out["probes"][k] = out["probes"].get(k, 0) + 1

    # reference encoder over the accepted order
    accepted = []  # (item-spec, expected value | None)
    by_k = {it["k"]: it for it in scn["items"]}
    order = []
    for (_e, _t, tn, obj) in st["ws"].items:
        order.append((tn, obj))
    # map accepted objects back to their spec: re-materialise in producer order
    per_prod = {}
    for it in scn["items"]:
        if it["k"] in st.get("resend_skipped", ()):
            continue
        per_prod.setdefault(it["producer"], []).append(it)
    cursor = {p: 0 for p in per_prod}
    prods_seen = []
    for (tn, _obj) in order:
        p = int(tn.split("-")[1])
        it = per_prod[p][cursor[p]]
        cursor[p] += 1
        accepted.append(it)
        prods_seen.append(p)
    expected = []
    saw_unser = False
    for it in accepted:
        _obj, exp = _materialise(it)
        if it["shape"] == "unser" and it["what"] == "none_item":
            expected.append(("optional", None))
            saw_unser = True
            continue
        if exp == "surrogate-optional":
            expected.append(("optional-any", None))
            saw_unser = True
            continue
        if exp is None:
            saw_unser = True
            continue
        if saw_unser:
            probe("unserialisable_before_valid")
        expected.append(("must", exp))
        if isinstance(exp, dict) and any(ch in json.dumps(exp, ensure_ascii=False) for ch in ("\\n", "\\r", " ", " ", "\u0085")):
            probe("payload_with_line_breaks")
    if len(set(prods_seen)) > 1 and any(a != b for a, b in zip(prods_seen, prods_seen[1:])):
        probe("producers_interleaved")
    if st.get("backlog_at_close", 0) > 0:
        probe("closed_while_backlog")
    raw = st["received"]
    faulty = scn["fault"] is not None
    if faulty and b"\n" in raw:
        raw = raw[: raw.rindex(b"\n") + 1]  # the child died / closed mid-line: only whole lines are judged
    elif faulty:
        raw = b""
    try:
        text = raw.decode("utf-8")
    except UnicodeDecodeError as e:
        V("encoding", "not-utf8", f"child received bytes that are not UTF-8: {e}")
        text = raw.decode("utf-8", "replace")
    lines = text.split("\n")
    tail = lines[-1]
    lines = lines[:-1]
    if tail != "" and not faulty:
        V("framing", "unterminated-tail", f"last bytes received are not newline-terminated: {tail!r:.80}")
    # compare line by line
    i = 0
    ok = True
    rejections = 0
    kept = []
    for ln in lines:
        try:
            o_ = json.loads(ln)
        except Exception:
            o_ = None
        if isinstance(o_, dict) and isinstance(o_.get("error"), dict) and o_["error"].get("code") == -32600 and "batching" in str(o_["error"].get("message", "")).lower():
            rejections += 1
            continue
        kept.append(ln)
    lines = kept
    if scn.get("inbound_batches"):
        probe("inbound_batch_rejected_during_writes")
        # a batch arriving after the write stream (and with it the child's stdin) was closed cannot be answered: only an upper bound
        if rejections > len(scn["inbound_batches"]):
            V("framing", "rejection-line-count", f"{len(scn['inbound_batches'])} server batches arrived but {rejections} -32600 lines reached the child")
    if any(it.get("big") for it in accepted):
        probe("frame_over_64k")
    if any(it["shape"] == "unser" and "surrogate" in it.get("what", "") for it in accepted):
        probe("unencodable_string_item")
    if any(it.get("exotic") and it["shape"] != "unser" for it in accepted):
        probe("value_rejected_by_fast_json_backend")
    for ln in lines:
        if ln == "" and any(it["shape"] == "str_trailing_nl" for it in accepted):
            continue  # a blank line after a string that already ended in a newline carries no message (NDJSON readers skip it)
        if i >= len(expected):
            V("framing", "extra-line", f"child received more lines than serialisable items were accepted: extra {ln!r:.120}")
            ok = False
            break
        mode, exp = expected[i]
        try:
            val = json.loads(ln)
        except Exception:
            V("framing", "line-not-json", f"line #{i} is not JSON (a raw line break inside a message?): {ln!r:.120}; expected {exp!r:.120}")
            ok = False
            break
        # items that may legitimately produce one line or nothing: consume the line if it is theirs, otherwise skip them
        matched_optional = False
        while mode in ("optional", "optional-any"):
            hit = (val is None) if mode == "optional" else (isinstance(val, dict) and val.get("method") == "x" and "path" in (val.get("params") or {}))
            i += 1
            if hit:
                matched_optional = True
                break
            if i >= len(expected):
                V("framing", "extra-line", f"unexpected line {ln!r:.120}")
                ok = False
                break
            mode, exp = expected[i]
        if not ok:
            break
        if matched_optional:
            continue
        if val != exp:
            # lost / reordered / altered?
            rest = [e for (_m, e) in expected[i + 1:]]
            cause = "lost-or-reordered" if val in rest else "content-altered"
            V("content", cause, f"line #{i} decodes to {val!r:.160}, expected {exp!r:.160}")
            ok = False
            break
        i += 1
    if ok:
        remaining = [e for (m, e) in expected[i:] if m == "must"]
        if remaining and not faulty:
            V("content", "lost-tail", f"{len(remaining)} accepted serialisable item(s) never reached the child, first: {remaining[0]!r:.160}")
    if not faulty and not st["stdin_closed"]:
        V("close", "stdin-not-closed", "write stream was closed and drained but the child's stdin was never closed")
    out["nontrivial"] = bool(st["blocked"] or out["probes"].get("unserialisable_before_valid") or out["probes"].get("producers_interleaved"))
    out["history"] = {"accepted": [(it["producer"], it["shape"], it.get("what")) for it in accepted][:30], "lines_received": len(lines),
                      "expected_lines": len([1 for (m, _e) in expected if m == "must"]), "bytes": len(raw), "blocked_sends": st["blocked"],
                      "stdin_closed": st["stdin_closed"], "fault": scn["fault"], "read_mode": scn["read_mode"], "capacity": scn["capacity"]}
    return out
