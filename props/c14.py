"""C14 - deadlines, cancellation and progress behave the same under any traffic.

SUT: send_message with CancellationToken / progress_callback on real anyio streams.
Environment: peer traffic (responses, notifications, progress with right/foreign/no token,
floods every ~10 ms), token firing at generated virtual instants around poll edges, progress
callbacks that raise or await virtual time.
Oracle: bounded completion, cancel-within-one-poll, exactly-once cancelled notification,
callback log equal to the matching progress notifications delivered before completion.
"""
from __future__ import annotations

import asyncio
import copy
import importlib
import random
import uuid as _uuid

import anyio

from sim.loop import run_sim, ticks, TICK
from sim.streams import RecSend, RecRecv, FakeUUID, patched, build_inbound, dump

ID = "C14"
LEVEL = "exploration"
RULE = ("scenario = one send_message call with optional cancellation token (fired at a generated instant, possibly before the call) "
        "and optional progress callback (may raise / await), + peer traffic incl. floods; non-trivial = the token fired while the request "
        "was pending, or a matching progress notification was delivered, or a flood ran during the request")
PROBES = ["foreign_token_listener_raised", "cancel_noticed_while_outgoing_stalled", "callback_raised_timeout_or_cancelled_type", "token_shared_by_second_request", "params_carried_a_stale_progress_token", "cancel_while_pending", "cancel_before_call", "response_wins_in_cancel_window", "deadline_in_cancel_window",
          "cancel_exactly_on_poll_edge", "flood_during_request", "callback_raised", "callback_slept", "progress_matching_delivered",
          "progress_foreign_delivered", "cancel_after_completion"]
TIERS = {"quick": {"runs": 25000, "wall": 45.0}, "thorough": {"runs": 1200000, "wall": 560.0}}
ASSUMPTIONS = [
    "a response delivered inside (tc, tc+0.5] after the token fired may legitimately win; a deadline inside that window may legitimately win",
    "when the scenario's progress callback awaits virtual time, notifications queued behind a running callback are in flight: "
    "only order/values/prefix are checked for that family",
    "cancelled before sending: zero or one cancelled notification is accepted (the sentence is silent), the request itself must never be written",
]

TIMEOUTS = [0.5, 1.0, 1.75, 3.0]
POLL = 0.5


def generate(rng: random.Random, tier: str) -> dict:
    timeout = rng.choice(TIMEOUTS)
    t0 = rng.choice([0, 0, 3, 512, 700])
    dl = t0 + int(timeout / TICK)
    use_token = rng.random() < 0.7
    use_progress = rng.random() < 0.6
    cancel = None
    if use_token and rng.random() < 0.85:
        r = rng.random()
        if r < 0.12:
            ct = rng.randrange(0, t0 + 1)  # before (or at) the call
        elif r < 0.45:
            ct = t0 + 512 * rng.randrange(0, int(timeout / POLL) + 1) + rng.choice([-10, -1, 0, 1, 10])
        elif r < 0.6:
            ct = dl + rng.choice([-600, -512, -511, -513, -10, -1, 0, 1])
        else:
            ct = rng.randrange(t0, dl + 10)
        cancel = {"t": max(0, ct), "tie": rng.choice([0, 2]), "hops": rng.choice([0, 0, 1, 3])}
    events = []
    k = 0
    n = rng.choice([0, 1, 1, 2, 3, 4, 6])
    kinds = ["match_result", "match_error", "notification", "other_response"]
    if use_progress:
        kinds += ["progress", "progress", "progress"]
    for _ in range(n):
        kind = rng.choice(kinds)
        r = rng.random()
        if cancel and r < 0.35:
            t = cancel["t"] + rng.choice([-1, 0, 1, 10, 256, 511, 512, 513])
        elif r < 0.55:
            t = t0 + 512 * rng.randrange(0, int(timeout / POLL) + 1) + rng.choice([-1, 0, 1])
        elif r < 0.65:
            t = dl + rng.choice([-1, 0, 1])
        else:
            t = rng.randrange(t0, dl + 20)
        k += 1
        ev = {"t": max(0, t), "tie": rng.choice([0, 2]), "hops": rng.choice([0, 0, 1, 2]), "kind": kind, "m": f"mk{k}"}
        if kind == "progress":
            ev["token"] = rng.choice(["right", "right", "right", "foreign", "none", "int"])
            ev["fields"] = rng.choice(["all", "all", "noprogress", "nototal", "nomessage", "only_token"])
            ev["p"] = rng.choice([0, 0.25, 1, 50, 99.5])
            ev["total"] = rng.choice([100.0, 100.0, 0, 0.0, 1, 7.5])
        if kind == "match_error":
            ev["code"] = rng.choice([-32603, -32000, 42])
        events.append(ev)
    flood = None
    if rng.random() < 0.2:
        flood = {"every": rng.choice([10, 10, 5, 50]), "start": rng.choice([0, t0, t0 + 100]), "end": dl + 50,
                 "kind": rng.choice(["notification", "other_response", "progress_foreign"])}
    cb = {"raise_at": sorted(rng.sample(range(0, 6), rng.choice([0, 0, 1, 2]))), "sleep": rng.choice([0, 0, 0, 0, 5, 300]),
          "raise_kind": rng.choice(["RuntimeError", "RuntimeError", "TimeoutError", "LibCancelledError", "KeyError", "asyncio.TimeoutError", "OSError"]),
          "callable_kind": rng.choice(["function", "function", "object", "wrapper"])} if use_progress else None
    wblock = None
    if cancel is not None and cancel["t"] > t0 + 1 and rng.random() < 0.15:
        # the outgoing side stops taking messages for a while around the moment the cancellation is noticed
        bs = max(t0 + 2, cancel["t"] + rng.choice([-300, -5, -1, 0, 1, 100, 400]))
        wblock = {"at": bs, "dur": rng.choice([100, 511, 513, 700, 1100, 1600])}
        if rng.random() < 0.3:
            wblock["break"] = True   # ... or goes away for good (the transport's writer is gone): sends fail from then on
        if cb:
            cb["sleep"] = 0
    follow_up = None
    if wblock is None and use_token and cancel is not None and rng.random() < 0.3:
        # a second request started later with the SAME token (e.g. one token per user action covering several calls)
        follow_up = {"dt": rng.choice([0, 1, 600, 1200]), "timeout": rng.choice([0.5, 1.0])}
    # other parties registered their own listeners on the token before this request (one of them may fail when the token fires)
    listeners = [rng.choice(["ok", "raises", "raises"]) for _ in range(rng.choice([1, 2, 3]))] if (use_token and rng.random() < 0.25) else []
    return {"v": 1, "listeners": listeners, "wblock": wblock, "follow_up": follow_up, "timeout": timeout, "t0": t0, "uuid_seed": rng.getrandbits(40),
            "mid": rng.choice([None, None, "req-1", "77", 0, ""]), "mode": rng.choice(["parse_message", "model_validate"]),
            "params": rng.choice([None, {}, {"a": 1}, {"_meta": {"keep": 1}, "b": 2}, {"_meta": {"progressToken": "stale-token-from-earlier-attempt"}, "c": 3}]),
            "use_token": use_token, "cancel": cancel, "use_progress": use_progress, "cb": cb, "flood": flood, "events": events}


def systematic(tier: str):
    """Sweep of the cancel instant over three poll periods (every 16 ticks, thorough every 4) x where the matching response sits
    relative to it x the tie order of the two events: the 'within one polling interval unless the response arrived first' clause on a grid."""
    out = []
    step = 16 if tier == "quick" else 4
    timeout, t0 = 1.5, 0
    for ct in range(0, 1536 + step, step):
        for rel in (None, -1, 0, 1, 511, 512, 513):
            for tie in ((0, 2) if rel == 0 else (0,)):
                events = []
                if rel is not None:
                    events.append({"t": max(0, ct + rel), "tie": 2 - tie, "hops": 0, "kind": "match_result", "m": "mk1"})
                out.append({"v": 1, "wblock": None, "follow_up": None, "timeout": timeout, "t0": t0, "uuid_seed": 12345, "mid": "req-1",
                            "mode": "model_validate", "params": None, "use_token": True, "cancel": {"t": ct, "tie": tie, "hops": 0},
                            "use_progress": False, "cb": None, "flood": None, "events": events})
    return out


def simplify(scn):
    if scn.get("listeners"):
        c = copy.deepcopy(scn); c["listeners"] = []; yield c
    if scn.get("wblock"):
        c = copy.deepcopy(scn); c["wblock"] = None; yield c
    if scn.get("cb") and scn["cb"].get("raise_kind", "RuntimeError") != "RuntimeError":
        c = copy.deepcopy(scn); c["cb"]["raise_kind"] = "RuntimeError"; yield c
    if scn.get("follow_up"):
        c = copy.deepcopy(scn); c["follow_up"] = None; yield c
    c = copy.deepcopy(scn)
    if c["flood"]:
        c["flood"] = None; yield c
    if scn["cb"] and scn["cb"]["sleep"]:
        c = copy.deepcopy(scn); c["cb"]["sleep"] = 0; yield c
    if scn["cb"] and scn["cb"]["raise_at"]:
        c = copy.deepcopy(scn); c["cb"]["raise_at"] = []; yield c
    if scn["cancel"]:
        c = copy.deepcopy(scn); c["cancel"] = None; yield c
        if scn["cancel"]["hops"]:
            c = copy.deepcopy(scn); c["cancel"]["hops"] = 0; yield c
        if scn["cancel"]["tie"]:
            c = copy.deepcopy(scn); c["cancel"]["tie"] = 0; yield c
    if scn["use_progress"] and not any(e["kind"] == "progress" for e in scn["events"]):
        c = copy.deepcopy(scn); c["use_progress"] = False; c["cb"] = None; yield c
    if scn["params"] is not None:
        c = copy.deepcopy(scn); c["params"] = None; yield c
    if scn["mid"] is None:
        c = copy.deepcopy(scn); c["mid"] = "req-1"; yield c
    for i, ev in enumerate(scn["events"]):
        if ev.get("hops"):
            c = copy.deepcopy(scn); c["events"][i]["hops"] = 0; yield c
        if ev.get("tie"):
            c = copy.deepcopy(scn); c["events"][i]["tie"] = 0; yield c
    if scn["t0"]:
        c = copy.deepcopy(scn); d = c["t0"]; c["t0"] = 0
        for ev in c["events"]:
            ev["t"] = max(0, ev["t"] - d)
        if c["cancel"]:
            c["cancel"]["t"] = max(0, c["cancel"]["t"] - d)
        if c["flood"]:
            c["flood"]["start"] = max(0, c["flood"]["start"] - d); c["flood"]["end"] -= d
        yield c


def execute(scn: dict) -> dict:
    sm = importlib.import_module("chuk_mcp.protocol.messages.send_message")
    from chuk_mcp.protocol.types.errors import RetryableError, NonRetryableError

    fu = FakeUUID(scn["uuid_seed"])
    use_progress = scn["use_progress"]
    rid = scn["mid"] if scn["mid"] else str(fu.value(1 if use_progress else 0))
    ptoken = str(fu.value(0)) if use_progress else None
    timeout, T0 = scn["timeout"], ticks(scn["t0"])
    st = {"cb_calls": [], "cb_active": 0}

    async def main(sim):
        nflood = 0
        if scn["flood"]:
            nflood = (scn["flood"]["end"] - scn["flood"]["start"]) // scn["flood"]["every"] + 2
        to_client_send, to_client_recv = anyio.create_memory_object_stream(max(100, len(scn["events"]) + nflood + 10))
        wb = scn.get("wblock")
        from_client_send, _keep = anyio.create_memory_object_stream(0 if wb else 100)
        rr = RecRecv(sim, to_client_recv)
        ws = RecSend(sim, from_client_send)
        if wb:
            # a consumer (the transport's writer) that takes every message at once, except during [at, at+dur)
            taken = []
            st["taken"] = taken
            gate = {"on": False, "ev": None, "scope": None}

            async def consumer():
                while True:
                    if gate["on"]:
                        await gate["ev"].wait()
                    with anyio.CancelScope() as sc:
                        gate["scope"] = sc
                        item = await _keep.receive()
                        taken.append((sim.rec("peer", "writer-took", None), sim.now(), "writer", item))

            def block_on():
                if wb.get("break"):
                    st["t_broken"] = sim.now()
                    sim.fault("outgoing_side_broken")
                    consumer_task.cancel()
                    _keep.close()
                    return
                gate["on"], gate["ev"] = True, anyio.Event()
                sim.fault("outgoing_side_stalled")
                if gate["scope"] is not None:
                    gate["scope"].cancel()

            def block_off():
                if wb.get("break"):
                    return
                gate["on"] = False
                gate["ev"].set()

            consumer_task = asyncio.get_running_loop().create_task(consumer(), name="writer-consumer")
            sim.at(ticks(wb["at"]), block_on, tie=0)
            sim.at(ticks(wb["at"] + wb["dur"]), block_off, tie=0)
        st["rr"], st["ws"] = rr, ws
        delivered = []
        st["delivered"] = delivered
        token = sm.CancellationToken() if scn["use_token"] else None
        st["listener_calls"] = []
        if token is not None:
            for li, kind_ in enumerate(scn.get("listeners", [])):
                def listener(li=li, kind_=kind_):
                    st["listener_calls"].append(li)
                    if kind_ == "raises":
                        sim.probe("foreign_token_listener_raised")
                        raise RuntimeError(f"listener {li} failed")
                token.add_callback(listener)

        def build(ev):
            k, m = ev["kind"], ev["m"]
            if k == "match_result":
                return {"jsonrpc": "2.0", "id": rid, "result": {"marker": m}}
            if k == "match_error":
                return {"jsonrpc": "2.0", "id": rid, "error": {"code": ev["code"], "message": m}}
            if k == "notification":
                return {"jsonrpc": "2.0", "method": "notifications/message", "params": {"data": m}}
            if k == "other_response":
                return {"jsonrpc": "2.0", "id": "other-" + m, "result": {"marker": m}}
            if k == "progress":
                p = {"progress": ev["p"], "total": ev.get("total", 100.0), "message": "msg-" + m}
                f = ev["fields"]
                if f == "noprogress":
                    del p["progress"]
                elif f == "nototal":
                    del p["total"]
                elif f == "nomessage":
                    del p["message"]
                elif f == "only_token":
                    p = {}
                tk = ev["token"]
                if tk == "right":
                    wire = None
                    for (_e, _t, _tn, item) in ws.items:
                        d_ = dump(item)
                        if isinstance(d_, dict) and d_.get("method") == "tools/call":
                            wire = ((d_.get("params") or {}).get("_meta") or {}).get("progressToken")
                    p["progressToken"] = wire if wire is not None else ptoken
                elif tk == "foreign":
                    p["progressToken"] = "foreign-" + m
                elif tk == "int":
                    p["progressToken"] = 12345
                p["marker"] = m
                return {"jsonrpc": "2.0", "method": "notifications/progress", "params": p}
            raise ValueError(k)

        def deliver(ev):
            data = build(ev)
            obj = build_inbound(scn["mode"], data)
            if obj is None:
                sim.rec("peer", "unbuildable", None)
                return
            e = sim.rec("peer", "deliver:" + ev["kind"], None)
            delivered.append({"eseq": e, "t": sim.now(), "ev": ev, "data": data, "cb_active": st["cb_active"]})
            to_client_send.send_nowait(obj)

        for ev in scn["events"]:
            sim.at(ticks(ev["t"]), deliver, ev, tie=ev["tie"], hops=ev["hops"])
        if scn["flood"]:
            fl = scn["flood"]
            j = 0
            for t in range(fl["start"], fl["end"], fl["every"]):
                j += 1
                if fl["kind"] == "progress_foreign":
                    fev = {"kind": "progress", "m": f"fl{j}", "token": "foreign", "fields": "all", "p": 1, "flood": True}
                else:
                    fev = {"kind": fl["kind"], "m": f"fl{j}", "flood": True}
                sim.at(ticks(t), deliver, fev, tie=0, hops=0)
        if scn["cancel"] and token is not None:
            def fire():
                st["tc"] = sim.now()
                st["tc_eseq"] = sim.rec("env", "token.cancel", None)
                token.cancel()
            sim.at(ticks(scn["cancel"]["t"]), fire, tie=scn["cancel"]["tie"], hops=scn["cancel"]["hops"])

        async def cb(progress, total, message):
            idx = len(st["cb_calls"])
            st["cb_calls"].append({"eseq": sim.rec("client", "progress-cb", None), "t": sim.now(), "args": (progress, total, message)})
            st["cb_active"] += 1
            try:
                if scn["cb"]["sleep"]:
                    await anyio.sleep(ticks(scn["cb"]["sleep"]))
                if idx in scn["cb"]["raise_at"]:
                    rk = scn["cb"].get("raise_kind", "RuntimeError")
                    exc_t = {"RuntimeError": RuntimeError, "TimeoutError": TimeoutError, "LibCancelledError": sm.CancelledError, "KeyError": KeyError,
                             "asyncio.TimeoutError": asyncio.TimeoutError, "OSError": ConnectionResetError}[rk]
                    if rk != "RuntimeError":
                        sim.probe("callback_raised_timeout_or_cancelled_type")
                    raise exc_t("callback failure injected")
            finally:
                st["cb_active"] -= 1

        if T0 > 0:
            await anyio.sleep(T0)
        st["t_call"] = sim.now()
        st["call_eseq"] = sim.rec("client", "call", None)
        kw = {"timeout": timeout}
        if scn["mid"] is not None:
            kw["message_id"] = scn["mid"]
        if token is not None:
            kw["cancellation_token"] = token
        if use_progress:
            kind_cb = (scn["cb"] or {}).get("callable_kind", "function")
            if kind_cb == "object":
                class _CbObject:   # an object with an async __call__ is as good an async callable as a function
                    async def __call__(self, progress, total, message):
                        return await cb(progress, total, message)
                kw["progress_callback"] = _CbObject()
            elif kind_cb == "wrapper":
                kw["progress_callback"] = lambda progress, total, message: cb(progress, total, message)   # returns the coroutine
            else:
                kw["progress_callback"] = cb
            if kind_cb != "function":
                sim.probe("progress_callback_is_not_a_plain_coroutine_function")
        try:
            res = await sm.send_message(rr, ws, "tools/call", copy.deepcopy(scn["params"]), **kw)
            st["outcome"] = ("return", res)
        except BaseException as e:  # noqa
            st["outcome"] = ("raise", e)
        st["t_done"] = sim.now()
        st["done_eseq"] = sim.rec("client", "done", st["outcome"][0])
        fu_ = scn.get("follow_up")
        if fu_ and token is not None:
            await anyio.sleep(ticks(fu_["dt"]))
            n_before = len(ws.items)
            st["fu_cancelled_at_start"] = token.is_cancelled
            st["fu_t0"] = sim.now()
            try:
                r2 = await sm.send_message(rr, ws, "tools/second", None, timeout=fu_["timeout"], message_id="second-request", cancellation_token=token)
                st["fu_outcome"] = ("return", r2)
            except BaseException as e2:  # noqa
                st["fu_outcome"] = ("raise", e2)
            st["fu_t1"] = sim.now()
            st["fu_writes"] = [dump(it) for (_e, _t, _tn, it) in ws.items[n_before:]]
        await anyio.sleep(1.0)
        if wb:
            await anyio.sleep(ticks(wb["dur"]))
            consumer_task.cancel()
            try:
                await consumer_task
            except BaseException:  # noqa
                pass

    with patched((_uuid, "uuid4", fu)):
        info = run_sim(main, max_steps=200_000, max_vtime=200.0)
    sim = info.sim
    out = {"violations": [], "digest": sim.digest(), "isig": sim.isig(), "faults": dict(sim.faults),
           "probes": dict(sim.probes), "vtime": info.vtime, "steps": info.steps, "harness": list(sim.harness_errors),
           "nontrivial": False, "history": None}
    if info.deadlock or info.limit or info.exc is not None or "outcome" not in st:
        out["harness"].append(f"run did not complete: deadlock={info.deadlock} limit={info.limit} exc={info.exc!r}")
        return out

    def V(cls, sig, msg):
        out["violations"].append({"cls": f"C14/{cls}", "sig": f"C14/{cls}:{sig}", "msg": msg})

    def probe(k):
        out["probes"][k] = out["probes"].get(k, 0) + 1

    def fault(k):
        out["faults"][k] = out["faults"].get(k, 0) + 1

    ws, delivered = st["ws"], st["delivered"]
    kind, val = st["outcome"]
    if kind == "return":
        actual = ("result", val)
    elif isinstance(val, TimeoutError):
        actual = ("timeout",)
    elif isinstance(val, sm.CancelledError):
        actual = ("cancelled",)
    elif isinstance(val, (RetryableError, NonRetryableError)):
        actual = ("error", getattr(val, "code", None))
    else:
        actual = ("exception", type(val).__name__, str(val)[:100])
    t_call, t_done = st["t_call"], st["t_done"]
    writes = [(e, t, dump(item)) for (e, t, _tn, item) in (st["taken"] if scn.get("wblock") else ws.items)]
    if "fu_outcome" in st:
        # the follow-up request with the same token is judged on its own and taken out of the first request's write history
        fw = st["fu_writes"]
        writes = writes[: len(writes) - len(fw)]
        probe("token_shared_by_second_request")
        k2, v2 = st["fu_outcome"]
        if st["fu_cancelled_at_start"]:
            # cancelled before sending: never sent, ends with the cancellation error
            if any(w.get("method") == "tools/second" for w in fw):
                V("sent-after-cancel", "second-request-with-cancelled-token", "a request started with an already cancelled token was written")
            if not (k2 == "raise" and isinstance(v2, sm.CancelledError)):
                V("outcome", "second-request-with-cancelled-token", f"a request started with an already cancelled token ended with {k2}:{type(v2).__name__}")
        else:
            tc2 = st.get("tc")
            fired_during = tc2 is not None and st["fu_t0"] <= tc2 < st["fu_t0"] + scn["follow_up"]["timeout"]
            if fired_during:
                ok2 = (k2 == "raise" and isinstance(v2, sm.CancelledError) and st["fu_t1"] <= tc2 + POLL) or \
                      (k2 == "raise" and isinstance(v2, TimeoutError) and st["fu_t0"] + scn["follow_up"]["timeout"] <= tc2 + POLL)
                if not ok2:
                    V("outcome", "second-request-ignores-shared-token", f"the token fired at {tc2} while the second request (started {st['fu_t0']}) was pending; it ended "
                                                                      f"{k2}:{type(v2).__name__} at {st['fu_t1']}")
    reqs = [w for w in writes if w[2].get("method") == "tools/call"]
    cancels = [w for w in writes if w[2].get("method") == "notifications/cancelled"]
    others = [w for w in writes if w not in reqs and w not in cancels]
    t_w = reqs[0][1] if reqs else t_call
    deadline = t_w + timeout
    tc = st.get("tc")
    pre_cancel = tc is not None and st["tc_eseq"] < st["call_eseq"]
    # outgoing side stalled while the cancellation is being noticed: the cancelled notification (and with it the CancelledError) waits for it
    notice_by = (tc + POLL) if tc is not None else None
    wb_edge = False
    broken = st.get("t_broken")
    if broken is not None:
        probe("outgoing_side_broken_before_cancel_noticed")
    if scn.get("wblock") and tc is not None and broken is None:
        bs, be = ticks(scn["wblock"]["at"]), ticks(scn["wblock"]["at"] + scn["wblock"]["dur"])
        if bs <= tc + POLL and be > tc:
            notice_by = max(notice_by, be)
            probe("cancel_noticed_while_outgoing_stalled")
            wb_edge = (be == deadline)

    # matching response model
    mstar, edge = None, None
    for d in delivered:
        dd = d["data"]
        if "method" not in dd and dd.get("id") == rid:
            if d["t"] < deadline:
                mstar = d
            elif d["t"] == deadline:
                edge = d
            break

    def exp_of(d):
        return ("error", d["data"]["error"]["code"]) if "error" in d["data"] else ("result", d["data"]["result"])

    acceptable = []
    if pre_cancel:
        acceptable = [("cancelled",)]
        probe("cancel_before_call")
        if reqs:
            V("sent-after-cancel", "request-written", f"token was cancelled before the call, yet the request was written: {reqs[0][2]!r:.150}")
        if len(cancels) > 1:
            V("cancel-notification", f"count={len(cancels)}:pre-call", "more than one cancelled notification")
    else:
        pending_at_tc = tc is not None and tc < deadline and (mstar is None or tc <= mstar["t"]) and tc >= t_call
        if tc is not None and not pending_at_tc and tc >= t_done:
            probe("cancel_after_completion")
        if pending_at_tc:
            probe("cancel_while_pending")
            fault("token_cancel_while_pending")
            if ((tc - t_w) / POLL) == int((tc - t_w) / POLL):
                probe("cancel_exactly_on_poll_edge")
            acceptable.append(("cancelled",))
            if mstar is not None and mstar["t"] <= tc + POLL:
                acceptable.append(exp_of(mstar))
                probe("response_wins_in_cancel_window")
            if deadline <= notice_by:
                acceptable.append(("timeout",))
                probe("deadline_in_cancel_window")
                if edge is not None:
                    acceptable.append(exp_of(edge))
        else:
            if mstar is not None:
                acceptable.append(exp_of(mstar))
                if tc is not None and reqs and mstar["eseq"] < reqs[0][0] and tc < deadline and tc >= t_call:
                    # the "response" was already queued before the request was even written (no real server can do that);
                    # the token then fired before the first receive: the sentence does not order these two - accept both
                    acceptable.append(("cancelled",))
                    probe("cancel_vs_prequeued_response")
            else:
                acceptable.append(("timeout",))
                if edge is not None:
                    acceptable.append(exp_of(edge))
                if tc is not None and tc == deadline:
                    acceptable.append(("cancelled",))
        if len(reqs) != 1:
            V("write-count", str(len(reqs)), f"{len(reqs)} requests written")
    if others:
        V("write-extra", "unexpected-message", f"unexpected outbound message {others[0][2]!r:.150}")

    # slow-callback family: the caller's own callback holds the receive loop; whatever is queued behind it is in flight
    slow_ends = []
    if use_progress and scn["cb"]["sleep"]:
        slow_ends = [(c["t"], c["t"] + ticks(scn["cb"]["sleep"])) for c in st["cb_calls"]]
        if any(end >= deadline for (_s, end) in slow_ends):
            acceptable.append(("timeout",))
        if tc is not None and any(s_ <= tc + POLL and end >= tc for (s_, end) in slow_ends):
            acceptable.append(("cancelled",))
            if mstar is not None:
                acceptable.append(exp_of(mstar))
    ok = False
    for acc in acceptable:
        if acc[0] == actual[0] and (len(acc) == 1 or (acc[0] == "error" and acc[1] == actual[1]) or (acc[0] == "result" and acc[1] == actual[1])):
            ok = True
    if not ok:
        V("outcome", f"{actual[0]}-not-in-{'+'.join(sorted(set(a[0] for a in acceptable)))}",
          f"call ended with {actual!r:.150} at t={t_done}; acceptable={acceptable!r:.200} (tc={tc}, deadline={deadline}, m*={mstar and mstar['t']})")
    # 1. bounded by the deadline, always
    if t_done > deadline and not pre_cancel:
        V("deadline-overrun", actual[0], f"call ended at {t_done} > deadline {deadline}")
    # 2. cancellation within one polling interval
    slack = max([end - s_ for (s_, end) in slow_ends if end >= tc and s_ <= tc + POLL], default=0.0) if tc is not None else 0.0
    if actual[0] == "cancelled" and tc is not None and not pre_cancel and t_done > notice_by + slack:
        V("cancel-latency", "over-one-poll", f"token fired at {tc}, CancelledError only at {t_done}")
    if actual[0] == "cancelled" and tc is None:
        V("outcome", "cancelled-without-token-fired", "CancelledError raised although the token never fired")
    # exactly one cancelled notification iff the call ended cancelled
    if not pre_cancel:
        want = 1 if actual[0] == "cancelled" else 0
        if broken is not None and tc is not None and broken <= tc + POLL:
            want = len(cancels) if len(cancels) <= 1 else want   # nothing can be written any more: 0 is all that is possible (1 if it went out just before)
        if len(cancels) != want and not (wb_edge and len(cancels) <= 1):
            V("cancel-notification", f"count={len(cancels)}:outcome={actual[0]}", f"{len(cancels)} cancelled notifications written, expected {want}")
    for c in cancels:
        p = c[2].get("params") or {}
        if p.get("requestId") != rid or "id" in c[2]:
            V("cancel-notification", "wrong-request-id", f"cancelled notification {c[2]!r:.150} does not name request id {rid!r}")
    # request content (progress token injected into _meta, rest untouched)
    if reqs:
        w = reqs[0][2]
        exp = copy.deepcopy(scn["params"])
        if use_progress:
            exp = exp if exp is not None else {}
            exp.setdefault("_meta", {})["progressToken"] = ptoken  # a fresh token per request, also when the dict carried an old one
        if w.get("id") != rid or (exp is None and "params" in w) or (exp is not None and w.get("params") != exp):
            V("write-content", "request", f"request {w!r:.200} != expected id={rid!r} params={exp!r}")

    if use_progress and isinstance(scn["params"], dict) and "progressToken" in (scn["params"].get("_meta") or {}):
        probe("params_carried_a_stale_progress_token")
    # 3. progress callback log
    if use_progress:
        slow = bool(scn["cb"]["sleep"])
        cutoff_eseq = mstar["eseq"] if (mstar is not None and actual[0] in ("result", "error")) else st["done_eseq"]
        matching = [d for d in delivered if d["ev"]["kind"] == "progress" and d["ev"].get("token") == "right"]
        for d in delivered:
            if d["ev"]["kind"] == "progress" and not d["ev"].get("flood"):
                probe("progress_matching_delivered" if d["ev"]["token"] == "right" else "progress_foreign_delivered")
        w_eseq = reqs[0][0] if reqs else 0
        # a notification carrying the token *before the request announcing that token was written* cannot come from a real
        # server: it may or may not be seen (e.g. the token fires before the first receive) - only "may"
        must = [d for d in matching if d["eseq"] < cutoff_eseq and d["t"] < t_done and not pre_cancel and d["eseq"] > w_eseq]
        if scn.get("wblock") and tc is not None and actual[0] in ("cancelled", "timeout"):
            # notifications arriving while the library is stuck handing over the cancelled notification are in flight, not "before completion"
            must = [d for d in must if d["t"] < max(tc, 0) or d["t"] < ticks(scn["wblock"]["at"])]
        may = [d for d in matching if d not in must and d["eseq"] < st["done_eseq"] and d["t"] <= t_done]
        calls = st["cb_calls"]

        def args_ok(d, args):
            p = d["data"]["params"]
            return ((args[0] == p.get("progress", 0) or (("progress" not in p) and args[0] in (0, None)))
                    and args[1] == p.get("total") and (args[1] is None) == (p.get("total") is None) and args[2] == p.get("message"))

        seq = sorted(must + may, key=lambda d: d["eseq"])
        bad = None
        j = 0
        for d in seq:
            if j < len(calls) and args_ok(d, calls[j]["args"]):
                j += 1
            elif d in must and not slow:
                if j < len(calls):
                    bad = ("wrong-values-or-order", f"invocation {j} got {calls[j]['args']!r}, next due notification carried {d['data']['params']!r:.150}")
                else:
                    bad = ("missed-invocation", f"{len(calls)} callback invocations but {len(must)} matching progress notifications were "
                                                f"delivered before completion; first missed: {d['data']['params']!r:.120}")
                break
        if bad is None and j < len(calls):
            bad = ("extra-invocation", f"callback invocation {j} with {calls[j]['args']!r} matches no matching-token progress notification "
                                       f"delivered before completion (in order); {len(calls)} invocations for {len(seq)} notifications")
        if bad:
            V("progress", bad[0], bad[1])
        if any(j < len(calls) for j in scn["cb"]["raise_at"]):
            probe("callback_raised"); fault("callback_raise")
        if slow and calls:
            probe("callback_slept"); fault("callback_sleep")
    elif st["cb_calls"]:
        V("progress", "callback-without-token", "callback invoked although no callback was passed")
    if scn["flood"] and any(d["ev"].get("flood") and t_w <= d["t"] <= t_done for d in delivered):
        probe("flood_during_request"); fault("flood")
    out["nontrivial"] = bool(out["probes"].get("cancel_while_pending") or out["probes"].get("progress_matching_delivered")
                             or out["probes"].get("flood_during_request"))
    out["history"] = {"rid": rid, "t_call": t_call, "deadline": deadline, "tc": tc, "t_done": t_done, "outcome": repr(actual)[:150],
                      "acceptable": repr(acceptable)[:200], "writes": [(t, w.get("method")) for (_e, t, w) in writes],
                      "cb_calls": [(c["t"], c["args"]) for c in st["cb_calls"]][:10],
                      "delivered": [(d["t"], d["ev"]["kind"], d["ev"].get("token")) for d in delivered if not d["ev"].get("flood")][:12]}
    return out
