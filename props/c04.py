"""C04 - a library server never acknowledges a protocol version it does not support.

SUT: real MCPServer/ProtocolHandler + InMemorySessionManager as a server node; 1..3 concurrent clients:
the real send_initialize (generated supported lists) and raw clients for requests the real client cannot
produce (malformed / non-string / absent version).  A simulated server loop moves (serialised and re-parsed)
messages between per-client pipes with generated latency, so handshakes interleave.
Oracle: invariant on every initialize answer + per-client session record + end-to-end outcome.
"""
from __future__ import annotations

import copy
import importlib
import json
import random
import uuid as _uuid

import anyio

from sim.loop import run_sim, ticks
from sim.streams import patched, FakeUUID

ID = "C04"
LEVEL = "exploration"
RULE = ("scenario = 1..3 concurrent clients (real send_initialize with a generated supported list, or a raw client) x requested version strata "
        "(each supported; supported +-1 day/month/year; any well-formed date 1925..2125; ill-formed strings; non-strings; absent) x network "
        "latencies; non-trivial = at least one requested version outside the server's supported list, or >= 2 handshakes interleaved")
PROBES = ["handshake_through_tracking_wrapper", "client_list_built_from_accessor_and_edited", "retry_after_client_timeout", "response_queued_while_other_handshake_handled", "requested_unsupported_wellformed", "requested_illformed", "requested_nonstring", "requested_absent", "handshakes_interleaved",
          "real_client_mismatch", "real_client_counter_proposal", "supported_echoed"]
TIERS = {"quick": {"runs": 20000, "wall": 45.0}, "thorough": {"runs": 1500000, "wall": 560.0}}
ASSUMPTIONS = ["messages cross the in-memory network serialised (model_dump_json(exclude_none)) and re-parsed (parse_message), as over a real transport"]
SHRINK_LISTS = ["clients"]

IMPOSSIBLE_DATES = ["2025-02-30", "2025-13-01", "2025-06-00", "0000-01-01", "2023-02-29", "9999-99-99", "2025-00-10", "2025-06-31"]
ILL = ["2025-6-18", "2025-06-18\n", " 2025-06-18", "", "latest", "v2", "2025/06/18", "20250618", "2025-06-18T00:00", "２０２５-06-18", "2025-06-1８"]
NONSTR = [20250618, None, ["2025-06-18"], {"v": "2025-06-18"}, True, 1.5]


def _neighbour(v, rng):
    y, m, d = (int(x) for x in v.split("-"))
    k = rng.choice(["d", "m", "y"])
    s = rng.choice([-1, 1])
    if k == "d":
        d = max(1, min(28, d + s)) if d + s not in (0,) else 1
        if d == int(v.split("-")[2]):
            d = d + 1 if d < 28 else d - 1
    elif k == "m":
        m = m + s if 1 <= m + s <= 12 else m - s
    else:
        y += s
    return f"{y:04d}-{m:02d}-{d:02d}"


PUBLISHED_SUPPORTED = ["2025-06-18", "2025-03-26", "2024-11-05"]


def generate(rng: random.Random, tier: str) -> dict:
    from_supported = ["2025-06-18", "2025-03-26", "2024-11-05"]
    clients = []
    for i in range(rng.choice([1, 1, 2, 3])):
        kind = rng.choice(["real", "real", "raw", "raw"])
        c = {"kind": kind, "start": rng.choice([0, 0, 1, 5, 30]), "net": rng.choice([0, 1, 3, 20]), "net_back": rng.choice([0, 1, 3, 20]),
             "info": rng.choice([None, {"name": f"cli{i}", "version": "1"}])}
        if kind == "real":
            universe = from_supported + ["2026-01-01", "2025-06-17", "1999-12-31", "v1", "2025-02-30"]
            c["supported"] = rng.sample(universe, rng.choice([1, 2, 3]))
            c["preferred"] = rng.choice([None, None, c["supported"][-1]])
            if rng.random() < 0.15 and "retry" not in c:
                # the handshake goes through the tracking wrapper (what stdio_client_with_initialize uses); the first initialize request
                # of this client never reaches the server (slow boot / lost on the way)
                c["tracking"] = {"first_request_lost": rng.random() < 0.7, "timeout": rng.choice([0.25, 0.5])}
            if rng.random() < 0.15:
                # the client builds its list from the library's accessor and edits what it was handed
                c["from_accessor"] = {"insert": rng.choice(["2026-01-01", "2025-06-19", "1999-12-31"]), "at": rng.choice([0, 0, 1])}
                c["preferred"] = None
            if rng.random() < 0.25:
                # the first attempt times out on the client (slow network), the answer arrives late; then a retry on the same streams
                c["retry"] = {"supported": rng.sample(from_supported, rng.choice([1, 2, 3])), "preferred": rng.choice([None, "2024-11-05", "2025-03-26"])}
                c["net"] = rng.choice([8, 20])
        else:
            r = rng.random()
            if r < 0.2:
                c["version"] = rng.choice(from_supported)
            elif r < 0.4:
                c["version"] = _neighbour(rng.choice(from_supported), rng)
            elif r < 0.5:
                c["version"] = rng.choice(IMPOSSIBLE_DATES)   # well-formed dddd-dd-dd that is no calendar date
            elif r < 0.6:
                c["version"] = f"{rng.randrange(1925, 2126):04d}-{rng.randrange(1, 13):02d}-{rng.randrange(1, 29):02d}"
            elif r < 0.75:
                c["version"] = rng.choice(ILL)
            elif r < 0.9:
                c["version"] = rng.choice(NONSTR)
                c["nonstr"] = True
            else:
                c["absent"] = True
            c["second"] = rng.random() < 0.2  # a second handshake on the same connection
        clients.append(c)
    return {"v": 1, "server_title": rng.choice([None, None, "Sim Server (display title)"]), "uuid_seed": rng.getrandbits(40), "server_delay": rng.choice([0, 0, 2, 10]), "flush_delay": rng.choice([0, 0, 3, 25]), "clients": clients}


def simplify(scn):
    for i, c in enumerate(scn["clients"]):
        for k in ("start", "net", "net_back"):
            if c.get(k):
                cc = copy.deepcopy(scn); cc["clients"][i][k] = 0; yield cc
        if c.get("second"):
            cc = copy.deepcopy(scn); cc["clients"][i]["second"] = False; yield cc
        if c.get("info"):
            cc = copy.deepcopy(scn); cc["clients"][i]["info"] = None; yield cc
        if c.get("retry"):
            cc = copy.deepcopy(scn); del cc["clients"][i]["retry"]; yield cc
        if c.get("from_accessor"):
            cc = copy.deepcopy(scn); del cc["clients"][i]["from_accessor"]; yield cc
        if c.get("tracking"):
            cc = copy.deepcopy(scn); del cc["clients"][i]["tracking"]; yield cc
    if scn["server_delay"]:
        cc = copy.deepcopy(scn); cc["server_delay"] = 0; yield cc
    if scn.get("flush_delay"):
        cc = copy.deepcopy(scn); cc["flush_delay"] = 0; yield cc


def execute(scn: dict) -> dict:
    ini = importlib.import_module("chuk_mcp.protocol.messages.initialize.send_messages")
    from chuk_mcp.server.server import MCPServer
    from chuk_mcp.protocol.messages.json_rpc_message import parse_message
    from chuk_mcp.protocol.types import versioning as _versioning
    # what the server supports is the published list as it was when the library was imported - NOT whatever the live list object
    # holds by the end of the run (a caller editing a list it was handed must not change what servers support)
    SUPPORTED_VERSIONS = list(PUBLISHED_SUPPORTED)
    if list(_versioning.SUPPORTED_VERSIONS) != SUPPORTED_VERSIONS:
        _versioning.SUPPORTED_VERSIONS[:] = SUPPORTED_VERSIONS  # left over from an earlier (violating) run in this worker
    from chuk_mcp.protocol.types.errors import VersionMismatchError

    fu = FakeUUID(scn["uuid_seed"])
    st = {"answers": [], "outcomes": {}, "active": 0, "interleaved": False}

    def wire(obj):
        """serialise + re-parse, as over a real transport"""
        txt = obj.model_dump_json(exclude_none=True) if hasattr(obj, "model_dump_json") else json.dumps(obj)
        return parse_message(json.loads(txt)), json.loads(txt)

    async def main(sim):
        server = MCPServer("sim-server")
        ph = server.protocol_handler
        if scn.get("server_title"):
            try:
                ph.server_info.title = scn["server_title"]   # optional display title (2025-06-18); MCPServer itself cannot set it
                sim.probe("server_info_with_title")
            except Exception:
                pass
        st["ph"] = ph

        async def server_loop(i, c, c2s_recv, s2c_send):
            session = None
            lost = [bool((c.get("tracking") or {}).get("first_request_lost"))]
            async for raw in c2s_recv:
                if lost[0]:
                    lost[0] = False
                    sim.rec("net", "first-request-lost", None)
                    sim.fault("first_initialize_request_lost")
                    continue
                if c["net"]:
                    await anyio.sleep(ticks(c["net"]))
                try:
                    msg, data = wire(raw)
                except Exception as e:
                    sim.rec("server", "unparsable", None)
                    continue
                if scn["server_delay"]:
                    await anyio.sleep(ticks(scn["server_delay"]))
                is_init = data.get("method") == "initialize" and "id" in data
                if is_init:
                    st["active"] += 1
                    if st["active"] > 1:
                        st["interleaved"] = True
                sim.rec(f"server", f"handle:{data.get('method')}", None)
                try:
                    resp, new_sid = await ph.handle_message(msg, session)
                except Exception as e:
                    st["answers"].append({"client": i, "request": data, "raised": repr(e)[:120]})
                    if is_init:
                        st["active"] -= 1
                    continue
                rec = None
                if is_init:
                    rec = {"client": i, "request": data, "response": None, "session_id": new_sid}
                    st["answers"].append(rec)
                if new_sid:
                    session = new_sid
                if resp is not None:
                    # the response object sits in an outbound queue for a while before it is serialised onto the wire;
                    # what counts is what is written then (other handshakes may be handled in the meantime)
                    if scn.get("flush_delay"):
                        await anyio.sleep(ticks(scn["flush_delay"]))
                    if c["net_back"]:
                        await anyio.sleep(ticks(c["net_back"]))
                    obj, as_json = wire(resp)
                    if rec is not None:
                        rec["response"] = as_json
                    await s2c_send.send(obj)
                if is_init:
                    st["active"] -= 1

        async def client(i, c, s2c_recv, c2s_send):
            if c["start"]:
                await anyio.sleep(ticks(c["start"]))
            if c["kind"] == "real":
                sup, pref = list(c["supported"]), c["preferred"]
                if c.get("from_accessor"):
                    mine = ini.get_supported_versions()
                    mine.insert(min(c["from_accessor"]["at"], len(mine)), c["from_accessor"]["insert"])
                    sup = mine
                    sim.probe("client_list_built_from_accessor_and_edited")
                if c.get("retry"):
                    try:
                        await ini.send_initialize(s2c_recv, c2s_send, timeout=ticks(4), supported_versions=sup, preferred_version=pref)
                        st["first_attempt"] = "answered-in-time"
                    except TimeoutError:
                        st.setdefault("retried", []).append(i)
                    except BaseException:  # noqa
                        pass
                    sup, pref = list(c["retry"]["supported"]), c["retry"]["preferred"]
                try:
                    if c.get("tracking"):
                        class _Tracked:
                            version = None

                            def set_protocol_version(self, v):
                                self.version = v
                        tracked = _Tracked()
                        res = await ini.send_initialize_with_client_tracking(s2c_recv, c2s_send, client=tracked, timeout=c["tracking"]["timeout"],
                                                                             supported_versions=sup, preferred_version=pref)
                        st.setdefault("tracked", {})[i] = tracked.version
                        sim.probe("handshake_through_tracking_wrapper")
                    else:
                        res = await ini.send_initialize(s2c_recv, c2s_send, timeout=5.0, supported_versions=sup, preferred_version=pref)
                    st["outcomes"][i] = ("ok", str(res.protocolVersion))
                except BaseException as e:  # noqa
                    st["outcomes"][i] = ("raise", e)
                st.setdefault("final_lists", {})[i] = sup
            else:
                for n in range(2 if c.get("second") else 1):
                    params = {"capabilities": {}}
                    if c["info"] is not None:
                        params["clientInfo"] = c["info"]
                    if not c.get("absent"):
                        params["protocolVersion"] = c["version"]
                    req = {"jsonrpc": "2.0", "id": f"raw-{i}-{n}", "method": "initialize", "params": params}
                    await c2s_send.send(req)
                    with anyio.move_on_after(5.0):
                        while True:
                            m = await s2c_recv.receive()
                            if getattr(m, "id", None) == req["id"]:
                                break
                st["outcomes"][i] = ("raw-done", None)
            await c2s_send.aclose()

        async with anyio.create_task_group() as tg:
            for i, c in enumerate(scn["clients"]):
                c2s_send, c2s_recv = anyio.create_memory_object_stream(100)
                s2c_send, s2c_recv = anyio.create_memory_object_stream(100)
                tg.start_soon(server_loop, i, c, c2s_recv, s2c_send, name=f"server-{i}")
                tg.start_soon(client, i, c, s2c_recv, c2s_send, name=f"client-{i}")

    with patched((_uuid, "uuid4", fu)):
        info = run_sim(main, max_steps=200_000, max_vtime=1000.0)
    sim = info.sim
    out = {"violations": [], "digest": sim.digest(), "isig": sim.isig(), "faults": dict(sim.faults),
           "probes": dict(sim.probes), "vtime": info.vtime, "steps": info.steps, "harness": list(sim.harness_errors),
           "nontrivial": False, "history": None}
    if info.deadlock or info.limit or info.exc is not None:
        out["harness"].append(f"run did not complete: deadlock={info.deadlock} limit={info.limit} exc={info.exc!r}")
        return out

    def V(cls, sig, msg):
        out["violations"].append({"cls": f"C04/{cls}", "sig": f"C04/{cls}:{sig}", "msg": msg})

    def probe(k):
        out["probes"][k] = out["probes"].get(k, 0) + 1

    import re
    WELL = re.compile(r"^\d{4}-\d{2}-\d{2}$")
    ph = st["ph"]
    nontrivial = st["interleaved"]
    if st["interleaved"]:
        probe("handshakes_interleaved")
    if scn.get("flush_delay") and len(st["answers"]) >= 2:
        probe("response_queued_while_other_handshake_handled")
    if list(_versioning.SUPPORTED_VERSIONS) != SUPPORTED_VERSIONS or _versioning.ProtocolVersion.get_all_supported() != SUPPORTED_VERSIONS:
        V("supported-set-changed", "by-a-caller", f"the library's supported versions changed during the run: {list(_versioning.SUPPORTED_VERSIONS)} "
                                                  f"(published: {SUPPORTED_VERSIONS}) - a caller edited a list it was handed")
        _versioning.SUPPORTED_VERSIONS[:] = SUPPORTED_VERSIONS
    for a in st["answers"]:
        req = a["request"]
        p = req.get("params") or {}
        has = "protocolVersion" in p
        rv = p.get("protocolVersion")
        if not has:
            stratum = "absent"; probe("requested_absent")
        elif not isinstance(rv, str):
            stratum = "nonstring"; probe("requested_nonstring")
        elif rv in SUPPORTED_VERSIONS:
            stratum = "supported"
        elif WELL.match(rv):
            stratum = "unsupported-wellformed"; probe("requested_unsupported_wellformed")
        else:
            stratum = "illformed"; probe("requested_illformed")
        if stratum != "supported":
            nontrivial = True
            out["faults"]["requested:" + stratum] = out["faults"].get("requested:" + stratum, 0) + 1
        if "raised" in a:
            V("server-raised", stratum, f"handle_message raised {a['raised']} for initialize with protocolVersion={rv!r}")
            continue
        resp = a["response"]
        if resp is None:
            V("no-answer", stratum, f"initialize with protocolVersion={rv!r} got no response")
            continue
        if "error" in resp:
            # refusing is not acknowledging: an error answer to an unsupported/malformed request is fine
            if stratum == "supported":
                V("refused-supported", stratum, f"initialize with supported version {rv!r} was refused: {resp['error']!r:.120}")
            continue
        av = (resp.get("result") or {}).get("protocolVersion")
        if av not in SUPPORTED_VERSIONS:
            V("acknowledged-unsupported", stratum, f"server answered protocolVersion={av!r} to a request for {rv!r}; it supports {SUPPORTED_VERSIONS}")
        if stratum == "supported":
            if av != rv:
                V("supported-not-echoed", "supported", f"client requested supported {rv!r}, server answered {av!r}")
            else:
                probe("supported_echoed")
        # session recorded under the id returned by that very call carries the version answered to that client
        sid = a["session_id"]
        sess = ph.session_manager.get_session(sid) if sid else None
        if sess is None:
            V("session", "missing", f"no session stored under the id {sid!r} returned by the initialize call")
        else:
            if sess.protocol_version != av:
                V("session", "version-differs", f"session {sid[:8]} records version {sess.protocol_version!r}, the answer to that client was {av!r}")
            exp_info = p.get("clientInfo", {})
            if sess.client_info != exp_info:
                V("session", "client-info-differs", f"session records client_info {sess.client_info!r:.80}, request carried {exp_info!r:.80}")
    sids = [a.get("session_id") for a in st["answers"] if a.get("session_id")]
    if len(set(sids)) != len(sids):
        V("session", "id-reused", f"two initialize calls returned the same session id: {sids}")
    # end-to-end: every real client ends agreed on a version both sides support, or with VersionMismatchError
    for i, c in enumerate(scn["clients"]):
        if c["kind"] != "real":
            continue
        o = st["outcomes"].get(i)
        if o is None:
            V("end-to-end", "no-outcome", f"client {i} never finished")
        elif o[0] == "ok":
            mine = [a for a in st["answers"] if a["client"] == i and a.get("response") and "result" in a["response"]]
            if i in st.get("retried", []) and mine:
                probe("retry_after_client_timeout")
                last = mine[-1]["response"]["result"].get("protocolVersion")
                if o[1] != last:
                    V("end-to-end", "client-and-server-disagree", f"client {i} retried after a timeout and believes it agreed on {o[1]!r}, but the server answered "
                                                                  f"{last!r} to that request (and recorded it); answers to this client: "
                                                                  f"{[a['response']['result'].get('protocolVersion') for a in mine]}")
            cl = st.get("final_lists", {}).get(i, c["supported"])
            if o[1] not in cl or o[1] not in SUPPORTED_VERSIONS:
                V("end-to-end", "agreed-on-unsupported", f"client {i} (supports {c['supported']}) and the server agreed on {o[1]!r}, which "
                                                       f"{'the server' if o[1] not in SUPPORTED_VERSIONS else 'the client'} does not support")
            proposed = c["preferred"] if (c["preferred"] and c["preferred"] in c["supported"]) else c["supported"][0]
            if o[1] != proposed:
                probe("real_client_counter_proposal")
        elif isinstance(o[1], VersionMismatchError):
            probe("real_client_mismatch")
        elif isinstance(o[1], TimeoutError) and (c.get("tracking") or {}).get("first_request_lost"):
            probe("request_lost_handshake_timed_out")  # the request never arrived: neither agreed nor mismatched, a plain timeout
        else:
            V("end-to-end", "other-error:" + type(o[1]).__name__, f"client {i} ended with {o[1]!r:.160}")
    out["nontrivial"] = nontrivial
    out["isig"] = out["isig"] + ":" + ",".join(sorted(out["faults"])) + ":" + ",".join(f"{c['kind']}{len(c.get('supported', []))}" for c in scn["clients"])
    out["history"] = {"answers": [{"client": a["client"], "requested": (a["request"].get("params") or {}).get("protocolVersion", "<absent>"),
                                   "answered": ((a.get("response") or {}).get("result") or {}).get("protocolVersion") if a.get("response") else a.get("raised"),
                                   "session": (a.get("session_id") or "")[:8]} for a in st["answers"]][:8],
                      "outcomes": {i: (o[0], str(o[1])[:80]) for i, o in st["outcomes"].items()}}
    return out
