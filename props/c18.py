"""C18 - concurrent requests on one connection: no cross-talk, no lost responses.

SUT: 2..4 concurrent send_message callers sharing one (read, write) pair of real anyio
memory streams.  Environment: a peer answering in a generated order/time, interleaved
with unrelated traffic.  Oracle: per-caller outcome vs. the answer sent for its own id,
with the cause of a loss taken from the consumption log (which task consumed which item).
"""
from __future__ import annotations

import copy
import importlib
import random
import uuid as _uuid

import anyio

from sim.loop import run_sim, ticks, TICK
from sim.streams import RecSend, RecRecv, FakeUUID, patched, build_inbound, dump

ID = "C18"
LEVEL = "exploration"
RULE = ("scenario = 2..4 concurrent send_message callers on one stream pair (staggered starts, own timeouts) + peer answers in a "
        "generated permutation/timing + unrelated notifications/foreign responses; non-trivial = an answer was delivered while at "
        "least two callers were waiting")
PROBES = ["own_stream_per_request", "id_reused_for_the_next_request", "answer_inside_a_batch", "sse_pair_on_simulated_http", "answer_on_sse_event_stream", "answer_behind_burst_of_over_100_notifications", "in_phase_in_order_regime", "token_holder_next_to_plain_waiter", "all_answers_in_one_flush", "stdio_pair_on_fake_process", "int_and_digit_string_twin_ids", "answer_consumed_by_other_waiter", "answer_on_poll_edge", "answers_out_of_call_order", "answer_at_deadline"]
TIERS = {"quick": {"runs": 25000, "wall": 45.0}, "thorough": {"runs": 2000000, "wall": 560.0}}
ASSUMPTIONS = ["an answer is only sent after the peer has seen the request (a server cannot answer an id it has not received)"]
SHRINK_LISTS = ["events"]

TIMEOUTS = [0.5, 1.0, 1.75, 3.0]


def generate(rng: random.Random, tier: str) -> dict:
    n = rng.choice([1, 2, 2, 2, 3, 3, 4])
    callers = []
    for i in range(n):
        callers.append({
            "start": rng.choice([0, 0, 0, 1, 5, 256, 512, 517, rng.randrange(0, 1200)]),
            "timeout": rng.choice(TIMEOUTS),
            "mid": rng.choice([None, f"c{i}", f"{i + 1}", f"req-{i}", i + 1, 7, "7", 0, ""]),
            "method": rng.choice(["tools/list", "ping", "x/y"]),
            "token": rng.random() < 0.3,   # passes a cancellation token (never fired here)
        })
    # ids must be distinct as JSON values (7 and "7" are distinct ids)
    seen = set()
    for c in callers:
        key = (type(c["mid"]).__name__, c["mid"])
        if c["mid"] is not None and key in seen:
            c["mid"] = None
        seen.add(key)
    events = []
    order = list(range(n))
    rng.shuffle(order)
    for i in order:
        c = callers[i]
        if rng.random() < 0.9:
            dl = c["start"] + int(c["timeout"] / TICK)
            r = rng.random()
            if r < 0.25:
                t = c["start"] + 512 * rng.randrange(0, 4) + rng.choice([-1, 0, 1])
            elif r < 0.35:
                t = dl + rng.choice([-1, 0, 1])
            else:
                t = rng.randrange(c["start"], dl + 20)
            events.append({"t": max(0, t), "tie": rng.choice([0, 2]), "hops": rng.choice([0, 0, 1, 3]), "kind": "answer",
                           "caller": i, "err": rng.random() < 0.2})
            if rng.random() < 0.1:
                events.append({"t": max(0, t) + rng.randrange(0, 30), "tie": 0, "hops": 0, "kind": "answer", "caller": i, "err": False})
    for _ in range(rng.choice([0, 0, 1, 2, 4])):
        events.append({"t": rng.randrange(0, 3000), "tie": rng.choice([0, 2]), "hops": 0,
                       "kind": rng.choice(["notification", "foreign_response", "null_id_error"])})
    events.sort(key=lambda e: e["t"])
    regime = None
    r = rng.random()
    if n >= 2 and r < 0.2:
        # callers started together (same poll phase), the server answers each exactly once in request order, no other traffic:
        # the regime in which every caller must get its own answer
        regime = "inphase"
        s0 = rng.choice([0, 0, 5, 300])
        for c in callers:
            c["start"] = s0
        dl = s0 + int(min(c["timeout"] for c in callers) / TICK)
        times = sorted(rng.choice([rng.randrange(s0 + 1, dl), s0 + 512 * rng.randrange(0, 4) + rng.choice([-1, 0, 1, 7])]) for _ in range(n))
        times = [min(max(s0 + 1, t), dl - 1) for t in times]
        events = [{"t": times[i], "tie": 0, "hops": 0, "kind": "answer", "caller": i, "err": rng.random() < 0.2} for i in range(n)]
    elif n >= 2 and r < 0.35:
        # the server flushes all its answers in one write (any order): they reach the client in one read
        regime = "one_flush"
        s_max = max(c["start"] for c in callers)
        dl = min(c["start"] + int(c["timeout"] / TICK) for c in callers)
        if s_max + 2 < dl:
            t = rng.randrange(s_max + 1, dl)
            order2 = list(range(n)); rng.shuffle(order2)
            events = [{"t": t, "tie": 0, "hops": 0, "kind": "answer", "caller": i, "err": False} for i in order2]
        else:
            regime = None
    carrier = rng.choice(["raw", "raw", "stdio"])
    if regime is None and rng.random() < 0.06:
        # one caller; the server flushes a burst of > 100 notifications and, behind it in the same write, the answer
        regime = "burst_then_answer"
        carrier = "stdio"
        callers = callers[:1]
        n = 1
        c = callers[0]
        t = rng.randrange(c["start"] + 1, c["start"] + int(c["timeout"] / TICK) - 1)
        events = [{"t": t, "tie": 0, "hops": 0, "kind": "burst", "count": rng.choice([101, 150, 260])},
                  {"t": t, "tie": 0, "hops": 0, "kind": "answer", "caller": 0, "err": False}]
    if regime is None and n >= 2 and rng.random() < 0.15:
        # every caller registers its own one-shot stream for its id (StdioClient.new_request_stream): any answer order, any timing, any
        # noise - this API exists so that nobody can consume somebody else's answer
        regime = "per_request_streams"
        carrier = "stdio"
        for i, c in enumerate(callers):
            c["mid"] = rng.choice([f"p{i}", f"req-{i}", 100 + i])  # distinct also as strings (the registry is keyed by str(id))
        reuse = rng.random() < 0.3
        abandoned = rng.choice([0, 0, 40, 31, 64])
        if reuse:
            # a server that answers one id twice plus a client that reuses that id is the server's (and the reuser's) problem: one answer per request
            seen_c, kept = set(), []
            for e in events:
                if e["kind"] == "answer":
                    if e["caller"] in seen_c:
                        continue
                    seen_c.add(e["caller"])
                kept.append(e)
            events = kept
    else:
        reuse = False
        abandoned = 0
    if regime is None and rng.random() < 0.06:
        # one caller; the server answers inside a JSON-RPC batch whose first member is an unrelated notification (no version negotiated: batches are legal)
        regime = "batch_leading_notification"
        carrier = "stdio"
        callers = callers[:1]
        n = 1
        c = callers[0]
        t = rng.randrange(c["start"] + 1, c["start"] + int(c["timeout"] / TICK) - 1)
        events = [{"t": t, "tie": 0, "hops": 0, "kind": "answer", "caller": 0, "err": rng.random() < 0.3, "in_batch": rng.choice(["notification_first", "notification_first", "answer_first"])}]
    post_lat = 1
    if regime == "inphase" and rng.random() < 0.3:
        carrier = "sse"
        post_lat = rng.choice([1, 1, 30, 300])  # a slow acknowledgement lets the event overtake the 202
    for k, e in enumerate(events):
        e["m"] = f"mk{k}"
    sibling = {"at": rng.choice([0, 1, 300, 1300])} if (regime == "per_request_streams" and rng.random() < 0.3) else None
    earlier_attempt = rng.choice([1, 30]) if (regime == "per_request_streams" and rng.random() < 0.3) else None
    return {"v": 1, "earlier_attempt": earlier_attempt, "sibling": sibling, "abandoned": abandoned, "reuse_id": reuse, "post_lat": post_lat, "uuid_seed": rng.getrandbits(40), "mode": rng.choice(["parse_message", "model_validate"]),
            "carrier": carrier, "regime": regime, "coalesce": rng.random() < 0.6,
            "callers": callers, "events": events}


def systematic(tier: str):
    """In-phase, in-order regime on a grid: two callers started together, answers at every pair t_a <= t_b of grid instants (incl. +-1 around the
    poll edges) x which of them holds a (never fired) token x carrier."""
    out = []
    step = 64 if tier == "quick" else 16
    dl = int(1.0 / TICK)
    grid = sorted(set(range(1, dl, step)) | {511, 512, 513, dl - 1})
    for ia, ta in enumerate(grid):
        for tb in grid[ia:]:
            for tokens in ((False, False), (True, False), (False, True), (True, True)):
                callers = [{"start": 0, "timeout": 1.0, "mid": f"c{i}", "method": "ping", "token": tokens[i]} for i in range(2)]
                events = [{"t": ta, "tie": 0, "hops": 0, "kind": "answer", "caller": 0, "err": False, "m": "mk0"},
                          {"t": tb, "tie": 0, "hops": 0, "kind": "answer", "caller": 1, "err": False, "m": "mk1"}]
                out.append({"v": 1, "uuid_seed": 99, "mode": "model_validate", "carrier": "raw" if (ta + tb) % 3 else "stdio", "regime": "inphase",
                            "coalesce": True, "callers": callers, "events": events})
    return out


def simplify(scn):
    if scn.get("regime"):
        return  # the regime is a property of the whole scenario: editing events/starts would leave it
    if scn.get("carrier") == "stdio":
        c = copy.deepcopy(scn); c["carrier"] = "raw"; yield c
    for i, cl in enumerate(scn["callers"]):
        if cl.get("token"):
            c = copy.deepcopy(scn); c["callers"][i]["token"] = False; yield c
    for i, ev in enumerate(scn["events"]):
        if ev.get("hops"):
            c = copy.deepcopy(scn); c["events"][i]["hops"] = 0; yield c
        if ev.get("tie"):
            c = copy.deepcopy(scn); c["events"][i]["tie"] = 0; yield c
        if ev.get("err"):
            c = copy.deepcopy(scn); c["events"][i]["err"] = False; yield c
    # drop the last caller if no event refers to it
    n = len(scn["callers"])
    if n > 1 and not any(e.get("caller") == n - 1 for e in scn["events"]):
        c = copy.deepcopy(scn); c["callers"].pop(); yield c
    for i, cl in enumerate(scn["callers"]):
        if cl["start"]:
            c = copy.deepcopy(scn); c["callers"][i]["start"] = 0; yield c
        if cl["mid"] is None:
            c = copy.deepcopy(scn); c["callers"][i]["mid"] = f"c{i}"; yield c


def execute(scn: dict) -> dict:
    sm = importlib.import_module("chuk_mcp.protocol.messages.send_message")
    from chuk_mcp.protocol.types.errors import RetryableError, NonRetryableError

    fu = FakeUUID(scn["uuid_seed"])
    callers = scn["callers"]
    n = len(callers)
    st = {"out": {}, "t_call": {}, "t_done": {}}

    async def main(sim):
        if scn.get("carrier") == "stdio":
            import json as _json
            from contextlib import AsyncExitStack
            from sim.fakes.process import ProcessFactory
            stdio = importlib.import_module("chuk_mcp.transports.stdio.stdio_client")
            from chuk_mcp.transports.stdio.parameters import StdioParameters
            def again_responder(line: bytes):
                try:
                    o = _json.loads(line)
                except Exception:
                    return []
                if isinstance(o, dict) and o.get("method") == "x/again" and "id" in o:
                    return [(ticks(2), [_json.dumps({"jsonrpc": "2.0", "id": o["id"], "result": {"again": True}}).encode() + b"\n"])]
                return []
            factory = ProcessFactory(sim, lambda idx, argv, env: {"read_mode": "eager", "term_latency": ticks(1), "responder": again_responder})
            async with AsyncExitStack() as stack:
                stack.enter_context(patched((anyio, "open_process", factory)))
                if scn.get("regime") == "per_request_streams":
                    client = stdio.StdioClient(StdioParameters(command="sim-child", args=[]))
                    await stack.enter_async_context(client)
                    r, w = client.get_streams()
                    st["_client"] = client
                    if scn.get("sibling"):
                        # another connection of the same process (a host talking to a second server) whose callers use the same request ids
                        client2 = stdio.StdioClient(StdioParameters(command="sim-child-2", args=[]))
                        await stack.enter_async_context(client2)

                        def sibling_registers():
                            for c_ in callers:
                                client2.new_request_stream(str(c_["mid"]))
                            sim.fault("second_connection_registered_the_same_ids")
                        sim.at(sim.now() + ticks(scn["sibling"]["at"]), sibling_registers, tie=2)
                    for q in range(scn.get("abandoned", 0)):
                        # requests of the past that were never answered: their callers timed out and nobody unregistered the streams
                        client.new_request_stream(f"gone-{q}")
                    if scn.get("abandoned"):
                        sim.fault("abandoned_per_request_registrations")
                else:
                    r, w = await stack.enter_async_context(stdio.stdio_client(StdioParameters(command="sim-child", args=[])))
                child = factory.children[0]
                child.coalesce_reads = bool(scn.get("coalesce")) or scn.get("regime") == "burst_then_answer"
                st["_child"] = child

                class _ChildSend:  # the "server side" of the pair is the fake child's stdout
                    def send_nowait(self, obj):
                        child.write_stdout([_json.dumps(st["_data"], ensure_ascii=False).encode() + b"\n"])
                await body(sim, RecRecv(sim, r), RecSend(sim, w), _ChildSend())
            return
        if scn.get("carrier") == "sse":
            # the pair handed out by sse_client(): requests are POSTed one after the other by the transport's sender, answers come on the event stream
            import json as _json
            import httpx as _httpx
            from sim.fakes.http import SimHTTPTransport, make_client_class
            ssemod = importlib.import_module("chuk_mcp.transports.sse.sse_client")
            from chuk_mcp.transports.sse.parameters import SSEParameters
            box = {}
            st["_seen_by_server"] = {}

            def keepalive():
                sx = box.get("stream")
                if sx is not None and not sx.closed:
                    sx.push(b": ka\n\n")
                    sim.at(sim.now() + 4.0, keepalive, tie=2)

            def on_stream(stream, rec):
                box["stream"] = stream
                stream.push(b"event: endpoint\ndata: /messages/?session_id=s1\n\n")
                sim.at(sim.now() + 4.0, keepalive, tie=2)

            def server(rec):
                if rec["method"] == "GET":
                    return {"status": 200, "headers": {"content-type": "text/event-stream"}, "chunks": [], "stay_open": True, "on_stream": on_stream}
                try:
                    posted = _json.loads(rec["body"])
                    st["_seen_by_server"].setdefault(_json.dumps(posted.get("id")), sim.now())
                except Exception:
                    pass
                return {"latency": ticks(scn.get("post_lat", 1)), "status": 202, "chunks": [(0, b"Accepted")]}

            transport = SimHTTPTransport(sim, server)
            Client = make_client_class(lambda: transport)

            class _SseSend:
                def send_nowait(self, obj):
                    box["stream"].push(("event: message\ndata: " + _json.dumps(st["_data"], ensure_ascii=False) + "\n\n").encode())
            with patched((_httpx, "AsyncClient", Client)):
                async with ssemod.sse_client(SSEParameters(url="http://sim.test", timeout=10.0)) as (r, w):
                    await body(sim, RecRecv(sim, r), RecSend(sim, w), _SseSend())
            return
        to_client_send, to_client_recv = anyio.create_memory_object_stream(max(100, len(scn["events"]) + 10))
        from_client_send, _from_client_recv = anyio.create_memory_object_stream(100)
        await body(sim, RecRecv(sim, to_client_recv), RecSend(sim, from_client_send), to_client_send)

    async def body(sim, rr, ws, to_client_send):
        st["rr"], st["ws"] = rr, ws
        delivered = []
        st["delivered"] = delivered

        def rid_of(i):
            for (_e, _t, tn, item) in ws.items:
                if tn == f"caller-{i}":
                    d = dump(item)
                    if d.get("method") == callers[i]["method"]:
                        return d.get("id")
            return None

        def deliver(k, ev):
            if ev["kind"] == "burst":
                # unrelated notifications, all in one write (stdio carrier only)
                import json as _json2
                lines = b"".join(_json2.dumps({"jsonrpc": "2.0", "method": "notifications/message", "params": {"data": f"burst-{q}"}}).encode() + b"\n"
                                 for q in range(ev["count"]))
                st["_child"].write_stdout([lines])
                sim.fault("notification_burst_over_100_in_one_flush")
                return
            if ev["kind"] == "answer":
                rid = rid_of(ev["caller"])
                if rid is None:
                    sim.rec("peer", "unanswerable", None)
                    return
                if "_seen_by_server" in st:
                    import json as _json3
                    if _json3.dumps(rid) not in st["_seen_by_server"]:
                        sim.rec("peer", "unanswerable-not-posted-yet", None)  # the serial sender has not POSTed this request yet
                        return
                    sim.probe("answer_on_sse_event_stream")
                if ev["err"]:
                    data = {"jsonrpc": "2.0", "id": rid, "error": {"code": -32000 - ev["caller"], "message": ev["m"]}}
                else:
                    data = {"jsonrpc": "2.0", "id": rid, "result": {"marker": ev["m"], "for": ev["caller"]}}
            elif ev["kind"] == "null_id_error":
                # what a server sends when it could not even read the id of something it was sent: addressed to nobody
                data = {"jsonrpc": "2.0", "id": None, "error": {"code": -32700, "message": "Parse error " + ev["m"]}}
            elif ev["kind"] == "notification":
                data = {"jsonrpc": "2.0", "method": "notifications/message", "params": {"data": ev["m"]}}
            else:
                data = {"jsonrpc": "2.0", "id": "nobody-" + ev["m"], "result": {"marker": ev["m"]}}
            obj = build_inbound(scn["mode"], data)
            if obj is None:
                sim.rec("peer", "unbuildable", None)
                return
            waiting = sum(1 for i in range(n) if i in st["t_call"] and i not in st["t_done"])
            e = sim.rec("peer", "deliver:" + ev["kind"], None)
            delivered.append({"eseq": e, "t": sim.now(), "k": k, "ev": ev, "data": data, "obj": obj, "waiting": waiting})
            st["_data"] = data
            if ev.get("in_batch"):
                note = {"jsonrpc": "2.0", "method": "notifications/message", "params": {"data": "in-batch"}}
                st["_data"] = [note, data] if ev["in_batch"] == "notification_first" else [data, note]
                sim.probe("answer_inside_a_batch")
            to_client_send.send_nowait(obj)

        for k, ev in enumerate(scn["events"]):
            sim.at(ticks(ev["t"]), deliver, k, ev, tie=ev["tie"], hops=ev["hops"])

        async def caller(i):
            c = callers[i]
            if c["start"]:
                await anyio.sleep(ticks(c["start"]))
            st["t_call"][i] = sim.now()
            sim.rec(f"caller-{i}", "call", None)
            try:
                kw = {"timeout": c["timeout"]}
                if c["mid"] is not None:
                    kw["message_id"] = c["mid"]
                if c.get("token"):
                    kw["cancellation_token"] = sm.CancellationToken()
                my_rr = rr
                if "_client" in st and scn.get("earlier_attempt") and i == 0:
                    # an earlier attempt under the same id that was never answered: its caller gave up and closed its stream
                    dead = st["_client"].new_request_stream(str(c["mid"]))
                    await anyio.sleep(ticks(scn["earlier_attempt"]))
                    dead.close()
                    sim.fault("earlier_unanswered_attempt_under_the_same_id")
                if "_client" in st:
                    my_rr = RecRecv(sim, st["_client"].new_request_stream(str(c["mid"])))
                    st.setdefault("_extra_rr", []).append(my_rr)
                res = await sm.send_message(my_rr, ws, c["method"], None, **kw)
                st["out"][i] = ("return", res)
                if "_client" in st and scn.get("reuse_id"):
                    # the same id again for the caller's next request, registered the moment the first one is done
                    rr2 = RecRecv(sim, st["_client"].new_request_stream(str(c["mid"])))
                    try:
                        st.setdefault("again", {})[i] = ("return", await sm.send_message(rr2, ws, "x/again", None, timeout=1.0, message_id=c["mid"]))
                    except BaseException as e2:  # noqa
                        st.setdefault("again", {})[i] = ("raise", e2)
            except BaseException as e:  # noqa
                st["out"][i] = ("raise", e)
            st["t_done"][i] = sim.now()
            sim.rec(f"caller-{i}", "done", st["out"][i][0])

        async def drain_main():
            try:
                async for _m in rr._inner if hasattr(rr, "_inner") else rr:
                    pass
            except Exception:
                pass

        async with anyio.create_task_group() as tg:
            if "_client" in st:
                tg.start_soon(drain_main, name="drain-main")
            async with anyio.create_task_group() as tg2:
                for i in range(n):
                    tg2.start_soon(caller, i, name=f"caller-{i}")
            tg.cancel_scope.cancel()
        await anyio.sleep(0.5)

    with patched((_uuid, "uuid4", fu)):
        info = run_sim(main, max_steps=100_000, max_vtime=200.0)
    sim = info.sim
    out = {"violations": [], "digest": sim.digest(), "isig": sim.isig(), "faults": dict(sim.faults),
           "probes": dict(sim.probes), "vtime": info.vtime, "steps": info.steps, "harness": list(sim.harness_errors),
           "nontrivial": False, "history": None}
    if info.deadlock or info.limit or info.exc is not None or len(st["out"]) != n:
        out["harness"].append(f"run did not complete: deadlock={info.deadlock} limit={info.limit} exc={info.exc!r}")
        return out

    def V(cls, sig, msg):
        out["violations"].append({"cls": f"C18/{cls}", "sig": f"C18/{cls}:{sig}", "msg": msg})

    def probe(k):
        out["probes"][k] = out["probes"].get(k, 0) + 1

    ws, rr, delivered = st["ws"], st["rr"], st["delivered"]
    # who consumed which delivered object
    consumer = {}
    unmatched = list(delivered)
    all_got = list(rr.got) + [g for x in st.get("_extra_rr", []) for g in x.got]
    for (_e, _t, tn, item) in all_got:
        d_ = dump(item)
        d_ = {k_: v_ for k_, v_ in d_.items() if v_ is not None} if isinstance(d_, dict) else d_
        for cand in unmatched:
            if cand["data"] == d_:
                consumer[id(cand["obj"])] = tn
                unmatched.remove(cand)
                break
    t_write = {}
    for (_e, t, tn, item) in ws.items:
        if tn.startswith("caller-"):
            t_write.setdefault(int(tn.split("-")[1]), t)
    hist = {"callers": [], "delivered": [{"t": d["t"], "kind": d["ev"]["kind"], "for": d["ev"].get("caller"), "m": d["ev"]["m"],
                                           "consumed_by": consumer.get(id(d["obj"])), "waiting": d["waiting"]} for d in delivered]}
    first_answer_order = []
    for i in range(n):
        kind, val = st["out"][i]
        deadline = t_write.get(i, st["t_call"][i]) + callers[i]["timeout"]
        mine = [d for d in delivered if d["ev"]["kind"] == "answer" and d["ev"]["caller"] == i]
        first = mine[0] if mine else None
        if first is not None:
            first_answer_order.append((first["eseq"], i))
            if first["waiting"] >= 2:
                out["nontrivial"] = True
            if consumer.get(id(first["obj"])) not in (None, f"caller-{i}"):
                probe("answer_consumed_by_other_waiter")
            if first["t"] == deadline:
                probe("answer_at_deadline")
            if ((first["t"] - st["t_call"][i]) / 0.5) == int((first["t"] - st["t_call"][i]) / 0.5):
                probe("answer_on_poll_edge")
        # classify actual
        if kind == "return":
            actual = ("result", val)
        elif isinstance(val, TimeoutError):
            actual = ("timeout", None)
        elif isinstance(val, (RetryableError, NonRetryableError)):
            actual = ("error", getattr(val, "code", None), str(val))
        else:
            actual = ("exception", type(val).__name__, str(val)[:100])
        hist["callers"].append({"i": i, "t_call": st["t_call"][i], "deadline": deadline, "t_done": st["t_done"][i],
                                "outcome": repr(actual)[:200]})
        # (a) cross-talk: never handed anything that was not sent for my id
        if actual[0] == "result":
            # any answer the server sent for *my* id is mine (a server that answers twice is its own problem; C01 covers "first")
            own = any("result" in d["data"] and actual[1] == d["data"]["result"] for d in mine)
            if not own:
                src = "unknown"
                for d in delivered:
                    if d["ev"]["kind"] == "answer" and "result" in d["data"] and actual[1] == d["data"]["result"]:
                        src = "answer-for-other-caller"
                    elif d["ev"]["kind"] != "answer" and isinstance(actual[1], dict) and actual[1].get("marker") == d["ev"]["m"]:
                        src = d["ev"]["kind"]
                V("cross-talk", src, f"caller {i} returned {actual[1]!r:.150} which was not sent for its id")
        elif actual[0] == "error":
            own = any("error" in d["data"] and actual[1] == d["data"]["error"]["code"] and d["ev"]["m"] in actual[2] for d in mine)
            if not own:
                V("cross-talk", "error-of-other", f"caller {i} raised {actual!r:.150} which was not sent for its id")
        elif actual[0] == "exception":
            V("unexpected-exception", actual[1], f"caller {i} raised {actual!r}")
        # (b) lost response
        # on the SSE pair an answer pushed before the POST's 202 is handed over when the 202 arrives: that is when it reaches the read stream
        eff_t = first["t"] if first is not None else None
        if first is not None and "_seen_by_server" in st:
            import json as _json4
            seen_t = st["_seen_by_server"].get(_json4.dumps(first["data"].get("id")))
            if seen_t is not None:
                eff_t = max(eff_t, seen_t + ticks(scn.get("post_lat", 1)))
                if eff_t > first["t"]:
                    probe("sse_answer_pushed_before_the_202")
        if first is not None and eff_t < deadline and actual[0] == "timeout":
            who = consumer.get(id(first["obj"]))
            if scn.get("regime") == "per_request_streams":
                cause = "own-stream-per-request:" + ("never-consumed" if who is None else ("self" if who == f"caller-{i}" else "other"))
            elif scn.get("regime") == "batch_leading_notification":
                cause = "single-caller-answer-inside-batch:" + ("never-consumed" if who is None else "consumed")
            elif scn.get("regime") == "burst_then_answer":
                cause = "single-caller-behind-notification-burst:" + ("never-consumed" if who is None else "consumed")
            elif scn.get("regime") == "inphase":
                cause = "in-phase-in-order:" + ("never-consumed" if who is None else ("self" if who == f"caller-{i}" else "other-waiter"))
            elif who is None:
                cause = "never-consumed"
            elif who == f"caller-{i}":
                cause = "consumed-by-self-not-returned"
            else:
                cause = "consumed-and-discarded-by-other-waiter"
            V("lost-response", cause, f"caller {i}: answer {first['ev']['m']} delivered at t={first['t']} (< deadline {deadline}) "
                                      f"but the call timed out; the item was consumed by {who}")
        if first is None and actual[0] != "timeout":
            pass  # covered by cross-talk above
        if (first is None or first["t"] > deadline) and actual[0] == "timeout" and st["t_done"][i] != deadline:
            V("timeout-instant", "not-at-deadline", f"caller {i} timed out at {st['t_done'][i]} but its deadline was {deadline}")
    if [i for _, i in sorted(first_answer_order)] != sorted(i for _, i in first_answer_order):
        probe("answers_out_of_call_order")
    if scn.get("carrier") == "stdio":
        probe("stdio_pair_on_fake_process")
    if scn.get("carrier") == "sse":
        probe("sse_pair_on_simulated_http")
    if scn.get("regime") == "inphase":
        probe("in_phase_in_order_regime")
        if any(c.get("token") for c in callers) and not all(c.get("token") for c in callers):
            probe("token_holder_next_to_plain_waiter")
    if scn.get("regime") == "per_request_streams":
        probe("own_stream_per_request")
        for i, (k2, v2) in sorted(st.get("again", {}).items()):
            probe("id_reused_for_the_next_request")
            if not (k2 == "return" and v2 == {"again": True}):
                V("lost-response", "own-stream-per-request:id-reused-for-next-request", f"caller {i} re-registered its id for a second request right after the first "
                                                                                     f"completed; the server answered it, the call ended {k2}:{type(v2).__name__}:{str(v2)[:80]}")
    if scn.get("regime") == "burst_then_answer":
        probe("answer_behind_burst_of_over_100_notifications")
    if scn.get("regime") == "one_flush":
        probe("all_answers_in_one_flush")
    mids = [c["mid"] for c in callers if c["mid"] is not None]
    if any(isinstance(a, int) and str(a) in [b for b in mids if isinstance(b, str)] for a in mids):
        probe("int_and_digit_string_twin_ids")
    for d in delivered:
        out["faults"]["deliver:" + d["ev"]["kind"]] = out["faults"].get("deliver:" + d["ev"]["kind"], 0) + 1
    out["history"] = hist
    return out
