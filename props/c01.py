"""C01 - a request completes only with the response that bears its own id.

SUT: chuk_mcp.protocol.messages.send_message.send_message and the typed send_*
helpers, on real anyio memory streams, under the virtual-time loop.
Environment: a scripted peer delivering messages at generated virtual instants
(relative to the 0.5 s poll edges and the deadline, with tie order and
loop-iteration offset).
Oracle: reference model "first matching response delivered before the deadline".
"""
from __future__ import annotations

import copy
import random
import uuid as _uuid

import anyio

from sim.loop import run_sim, ticks, TICK
from sim.streams import RecSend, RecRecv, FakeUUID, patched, build_inbound, dump

ID = "C01"
LEVEL = "exploration"
RULE = ("scenario = one client call (send_message or a typed helper) + 0..12 timed peer deliveries drawn from "
        "{matching result/error, same-id server request, other-id response (near misses), notification, progress, "
        "batch list, duplicate match, null result}; non-trivial = at least one distractor or boundary-placed delivery "
        "was consumed while the request was in flight")
PROBES = ["stream_closed_without_matching_response", "call_with_never_fired_token", "follow_up_call_on_same_streams", "call_with_progress_callback", "write_stream_stalled", "delivery_exactly_at_deadline", "delivery_exactly_on_poll_edge", "match_after_deadline",
          "same_id_request_delivered", "batch_delivered", "prequeued_before_call"]
TIERS = {"quick": {"runs": 40000, "wall": 45.0}, "thorough": {"runs": 4000000, "wall": 560.0}}
ASSUMPTIONS = [
    "inbound objects are built exactly as the transports build them (parse_message for stdio, "
    "JSONRPCMessage.model_validate for HTTP/SSE); unbuildable payloads are not delivered",
    "a delivery at exactly the deadline instant may either win or lose (both accepted, counted as probe)",
]

TIMEOUTS = [0.25, 0.5, 1.0, 1.75, 3.0]
POLL = 0.5

# typed helpers: name -> (kwargs, method, params or None(=absent), result payload builder, extractor kind)
def _helpers():
    return {
        "send_tools_list": (dict(), "tools/list", {}, lambda m: {"tools": [{"name": m, "description": "d", "inputSchema": {"type": "object"}}]}),
        "send_tools_list_cursor": (dict(cursor="c1"), "tools/list", {"cursor": "c1"}, lambda m: {"tools": [{"name": m, "description": "d", "inputSchema": {"type": "object"}}]}),
        "send_tools_call": (dict(name="echo", arguments={"a": 1}), "tools/call", {"name": "echo", "arguments": {"a": 1}}, lambda m: {"content": [{"type": "text", "text": m}], "isError": False}),
        "send_resources_list": (dict(), "resources/list", {}, lambda m: {"resources": [{"uri": "file:///" + m, "name": m}]}),
        "send_resources_read": (dict(uri="file:///x"), "resources/read", {"uri": "file:///x"}, lambda m: {"contents": [{"uri": "file:///x", "text": m}]}),
        "send_resources_templates_list": (dict(), "resources/templates/list", None, lambda m: {"resourceTemplates": [{"uriTemplate": "file:///{p}", "name": m}]}),
        "send_prompts_list": (dict(), "prompts/list", {}, lambda m: {"prompts": [{"name": m}]}),
        "send_prompts_get": (dict(name="p"), "prompts/get", {"name": "p"}, lambda m: {"messages": [{"role": "user", "content": {"type": "text", "text": m}}]}),
        "send_ping": (dict(), "ping", None, lambda m: {"marker": m}),
        "send_resources_subscribe": (dict(uri="file:///x"), "resources/subscribe", {"uri": "file:///x"}, lambda m: {"marker": m}),
        "send_resources_unsubscribe": (dict(uri="file:///x"), "resources/unsubscribe", {"uri": "file:///x"}, lambda m: {"marker": m}),
        "send_logging_set_level": (dict(level="info"), "logging/setLevel", {"level": "info"}, lambda m: {"marker": m}),
        "send_completion_complete": (dict(ref={"type": "ref/prompt", "name": "p"}, argument={"name": "a", "value": "v"}), "completion/complete",
                                     {"ref": {"type": "ref/prompt", "name": "p"}, "argument": {"name": "a", "value": "v"}},
                                     lambda m: {"completion": {"values": [m], "total": 1}}),
        "send_sampling_create_message": (dict(messages=[{"role": "user", "content": {"type": "text", "text": "hi"}}], max_tokens=5), "sampling/createMessage",
                                         {"messages": [{"role": "user", "content": {"type": "text", "text": "hi"}}], "maxTokens": 5},
                                         lambda m: {"role": "assistant", "content": {"type": "text", "text": m}, "model": "sim"}),
        "send_roots_list": (dict(), "roots/list", None, lambda m: {"roots": [{"uri": "file:///" + m, "name": m}]}),
    }


BOOL_HELPERS = {"send_ping", "send_resources_subscribe", "send_resources_unsubscribe"}


def _helper_fn(name):
    from chuk_mcp.protocol.messages.tools.send_messages import send_tools_list, send_tools_call
    from chuk_mcp.protocol.messages.resources.send_messages import (
        send_resources_list, send_resources_read, send_resources_templates_list,
        send_resources_subscribe, send_resources_unsubscribe)
    from chuk_mcp.protocol.messages.prompts.send_messages import send_prompts_list, send_prompts_get
    from chuk_mcp.protocol.messages.ping.send_messages import send_ping
    from chuk_mcp.protocol.messages.logging.send_messages import send_logging_set_level
    from chuk_mcp.protocol.messages.completions.send_messages import send_completion_complete
    from chuk_mcp.protocol.messages.sampling.send_messages import send_sampling_create_message
    from chuk_mcp.protocol.messages.roots.send_messages import send_roots_list

    return {
        "send_tools_list": send_tools_list, "send_tools_list_cursor": send_tools_list,
        "send_tools_call": send_tools_call, "send_resources_list": send_resources_list,
        "send_resources_read": send_resources_read,
        "send_resources_templates_list": send_resources_templates_list,
        "send_prompts_list": send_prompts_list, "send_prompts_get": send_prompts_get,
        "send_ping": send_ping, "send_resources_subscribe": send_resources_subscribe,
        "send_resources_unsubscribe": send_resources_unsubscribe,
        "send_logging_set_level": send_logging_set_level, "send_completion_complete": send_completion_complete,
        "send_sampling_create_message": send_sampling_create_message, "send_roots_list": send_roots_list,
    }[name]


PARAM_SHAPES = [None, {}, {"a": 1, "b": {"c": [1, 2, {"d": None}]}}, {"_meta": {"x": 1}, "q": "z"},
                {"text": "line\nbreak   é\U0001F600"}]
METHODS = ["tools/list", "resources/read", "x/custom", "ping"]
ERR_CODES = [-32700, -32600, -32601, -32602, -32603, -32000, -32001, -1, 0, 1, 42, 401, 429, 500]


def _near_miss_ids(rid: str, rng):
    out = [rid[:-1], rid + "x", rid.swapcase() if rid.swapcase() != rid else rid + "_", "other-" + str(rng.randrange(1000)),
           0, rng.randrange(1, 10 ** 6), "", " " + rid]
    if rid.isdigit():
        out += [int(rid), int(rid)]  # digit string vs integer: JSON type differs
    return out


def generate(rng: random.Random, tier: str) -> dict:
    big = tier == "thorough"
    api = "send_message" if rng.random() < 0.7 else rng.choice(sorted(_helpers()))
    timeout = rng.choice(TIMEOUTS)
    t0 = rng.choice([0, 0, 1, 13, 512, 777])
    mode = rng.choice(["parse_message", "model_validate"])
    uuid_seed = rng.getrandbits(40)
    if api == "send_message":
        id_shape = rng.choice(["auto", "str", "digits", "falsy"])
        if id_shape == "auto":
            mid = None
        elif id_shape == "falsy":
            mid = rng.choice(["", 0])  # documented behaviour: a falsy message_id means "generate one"
        elif id_shape == "str":
            mid = rng.choice(["req-1", "A", "abc-DEF", "x" * 40, "éid", "id with space"])
        else:
            mid = str(rng.choice([1, 12, 0, 7, 123456789, 10 ** 18]))
            if mid == "0":
                mid = "00"
        method = rng.choice(METHODS)
        params = rng.choice(PARAM_SHAPES)
    else:
        id_shape, mid = "auto", None
        _, method, params, _ = _helpers()[api]
    with_progress = api == "send_message" and rng.random() < 0.25
    rid = mid if mid else str(FakeUUID(uuid_seed).value(1 if with_progress else 0))
    slow_writer = None
    if rng.random() < 0.08:
        # the transport takes the request off the (unbuffered) write stream only after a while: send() blocks that long
        slow_writer = {"delay": rng.choice([1, 100, int(timeout / TICK) - 1, int(timeout / TICK), int(timeout / TICK) + 50, 2 * int(timeout / TICK)])}
    deadline_t = t0 + int(timeout / TICK)
    horizon = deadline_t + 30
    nmax = 12 if big else 8
    n = rng.choice([0, 1, 1, 2, 2, 3, 3, 4, 5, rng.randrange(0, nmax + 1)])
    kinds = ["match_result", "match_result", "match_error", "same_id_request", "other_response", "other_response",
             "other_error", "notification", "progress", "batch", "dup_match", "null_result"]
    # swarm: each run enables a random subset of distractor kinds
    enabled = [k for k in kinds if rng.random() < 0.7 and (k != "null_result" or api == "send_message")] or ["match_result"]
    events = []
    marker = 0
    for _ in range(n):
        kind = rng.choice(enabled)
        r = rng.random()
        if r < 0.30:
            edges = list(range(t0, deadline_t + 1, int(POLL / TICK)))
            base = rng.choice(edges)
        elif r < 0.50:
            base = deadline_t
        elif r < 0.58:
            base = t0
        else:
            base = rng.randrange(max(0, t0 - 5), horizon)
        t = max(0, base + rng.choice([-10, -1, 0, 0, 1, 10]) if r < 0.58 else base)
        marker += 1
        ev = {"t": t, "tie": rng.choice([0, 2]), "hops": rng.choice([0, 0, 0, 1, 2, 4]), "kind": kind, "m": f"mk{marker}"}
        if kind in ("other_response", "other_error"):
            ev["oid"] = rng.choice(_near_miss_ids(rid, rng))
        if kind in ("match_error", "other_error"):
            ev["code"] = rng.choice(ERR_CODES)
            ev["with_data"] = rng.random() < 0.3
        if kind == "same_id_request":
            ev["as_progress"] = rng.random() < 0.4
        if kind == "progress":
            ev["token"] = rng.choice(["right?", "foreign", None])
        if kind == "batch":
            ev["inner"] = rng.choice(["match", "other", "notif"])
        if kind == "match_result" and api == "send_message" and mode == "parse_message" and rng.random() < 0.15:
            ev["scalar"] = rng.choice(["list", "str", "int", "emptydict", "false", "zero"])
        events.append(ev)
    # the connection goes away while the request is pending: the read stream's sending side is closed (transport shut down)
    close_at = None
    if api == "send_message" and slow_writer is None and rng.random() < 0.08:
        close_at = rng.choice([t0, t0 + 1, t0 + 512, rng.randrange(t0, deadline_t + 1), deadline_t])
    with_token = api == "send_message" and rng.random() < 0.25   # a cancellation token that never fires
    return {"v": 1, "close_at": close_at, "with_token": with_token, "api": api, "mode": mode, "uuid_seed": uuid_seed, "message_id": mid, "method": method,
            "params": params, "timeout": timeout, "t0": t0, "events": events, "with_progress": with_progress, "slow_writer": slow_writer,
            # the connection is used again afterwards: a plain second request on the same streams, answered 3 ticks after it is written
            "follow_up": (api == "send_message" and slow_writer is None and close_at is None and rng.random() < 0.3)}


def systematic(tier: str):
    """The matching response swept over the whole life of a request (every 16 ticks, thorough every 4, plus +-1 around every poll edge and
    the deadline) x a distractor sitting right before it x tie order: 'first matching response before the deadline' on a grid."""
    out = []
    step = 16 if tier == "quick" else 4
    timeout, t0 = 1.5, 0
    dl = int(timeout / TICK)
    ts = set(range(0, dl + step, step))
    for e in list(range(0, dl + 1, int(POLL / TICK))) + [dl]:
        ts.update({max(0, e - 1), e, e + 1})
    for t in sorted(ts):
        for pre in (None, "other_response", "same_id_request", "notification"):
            for tie in (0, 2):
                if pre is None and tie == 2:
                    continue
                events = []
                if pre:
                    ev = {"t": t, "tie": tie, "hops": 0, "kind": pre, "m": "mk0"}
                    if pre == "other_response":
                        ev["oid"] = "req-1 "
                    if pre == "same_id_request":
                        ev["as_progress"] = False
                    events.append(ev)
                events.append({"t": t, "tie": 2 - tie if pre else 0, "hops": 0, "kind": "match_result", "m": "mk1"})
                events.append({"t": t + 3, "tie": 0, "hops": 0, "kind": "match_error", "m": "mk2", "code": -32000, "with_data": False})
                out.append({"v": 1, "api": "send_message", "mode": "model_validate", "uuid_seed": 4242, "message_id": "req-1", "method": "tools/list",
                            "params": None, "timeout": timeout, "t0": t0, "events": events, "with_progress": False, "slow_writer": None, "follow_up": False})
    return out


def simplify(scn):
    if scn.get("close_at") is not None:
        c = copy.deepcopy(scn); c["close_at"] = None; yield c
    if scn.get("with_token"):
        c = copy.deepcopy(scn); c["with_token"] = False; yield c
    if scn.get("follow_up"):
        c = _cp(scn); c["follow_up"] = False; yield c
    if scn.get("slow_writer"):
        c = _cp(scn); c["slow_writer"] = None; yield c
    for i, ev in enumerate(scn["events"]):
        if ev.get("hops"):
            c = _cp(scn); c["events"][i]["hops"] = 0; yield c
        if ev.get("tie"):
            c = _cp(scn); c["events"][i]["tie"] = 0; yield c
    if scn["t0"]:
        c = _cp(scn); d = c["t0"]; c["t0"] = 0
        for ev in c["events"]:
            ev["t"] = max(0, ev["t"] - d)
        yield c
    if scn["api"] == "send_message" and scn["params"] is not None:
        c = _cp(scn); c["params"] = None; yield c
    if scn["timeout"] != 0.5:
        c = _cp(scn); c["timeout"] = 0.5; yield c


def _cp(s):
    import copy
    return copy.deepcopy(s)


def _build_msg(ev, rid, api):
    k, m = ev["kind"], ev["m"]
    if api == "send_message":
        payload = {"marker": m, "nested": {"n": None, "u": "é "}}
        sc = ev.get("scalar")
        if sc:
            payload = {"list": [m, 1], "str": m, "int": int(m[2:]) + 1000, "emptydict": {}, "false": False, "zero": 0}[sc]
    else:
        payload = _helpers()[api][3](m)
    if k in ("match_result", "dup_match"):
        return {"jsonrpc": "2.0", "id": rid, "result": payload}
    if k == "null_result":
        return {"jsonrpc": "2.0", "id": rid, "result": None}
    if k == "match_error":
        e = {"code": ev["code"], "message": "err " + m}
        if ev.get("with_data"):
            e["data"] = {"marker": m}
        return {"jsonrpc": "2.0", "id": rid, "error": e}
    if k == "same_id_request":
        if ev.get("as_progress"):
            # a server-initiated *request* (it has an id) that happens to be called notifications/progress, with a foreign token
            return {"jsonrpc": "2.0", "id": rid, "method": "notifications/progress", "params": {"progressToken": "foreign-" + m, "progress": 1, "marker": m}}
        return {"jsonrpc": "2.0", "id": rid, "method": "sampling/createMessage", "params": {"marker": m}}
    if k == "other_response":
        return {"jsonrpc": "2.0", "id": ev["oid"], "result": payload}
    if k == "other_error":
        return {"jsonrpc": "2.0", "id": ev["oid"], "error": {"code": ev["code"], "message": "err " + m}}
    if k == "notification":
        return {"jsonrpc": "2.0", "method": "notifications/message", "params": {"level": "info", "data": m}}
    if k == "progress":
        p = {"progress": 0.5, "marker": m}
        if ev["token"] is not None:
            p["progressToken"] = ev["token"]
        return {"jsonrpc": "2.0", "method": "notifications/progress", "params": p}
    if k == "batch":
        inner = {"match": {"jsonrpc": "2.0", "id": rid, "result": payload},
                 "other": {"jsonrpc": "2.0", "id": "zzz", "result": payload},
                 "notif": {"jsonrpc": "2.0", "method": "notifications/message", "params": {"data": m}}}[ev["inner"]]
        return [inner, dict(inner)]
    raise ValueError(k)


def execute(scn: dict) -> dict:
    import importlib
    sm = importlib.import_module("chuk_mcp.protocol.messages.send_message")

    api, mode, timeout, t0 = scn["api"], scn["mode"], scn["timeout"], scn["t0"]
    fu = FakeUUID(scn["uuid_seed"])
    with_progress = bool(scn.get("with_progress"))
    rid = scn["message_id"] if scn["message_id"] else str(fu.value(1 if with_progress else 0))
    ptoken = str(fu.value(0)) if with_progress else None
    T0 = ticks(t0)
    st = {}

    async def main(sim):
        n = len(scn["events"])
        to_client_send, to_client_recv = anyio.create_memory_object_stream(max(100, n + 10))
        sw = scn.get("slow_writer")
        from_client_send, from_client_recv = anyio.create_memory_object_stream(0 if sw else 100)
        if sw:
            async def slow_transport():
                await anyio.sleep(T0 + ticks(sw["delay"]))
                try:
                    while True:
                        await from_client_recv.receive()
                except (anyio.EndOfStream, anyio.ClosedResourceError):
                    return
            import asyncio
            asyncio.get_running_loop().create_task(slow_transport(), name="slow-transport")
            sim.fault("write_stream_stalled")
        rr = RecRecv(sim, to_client_recv)
        ws = RecSend(sim, from_client_send)
        st["rr"], st["ws"] = rr, ws
        delivered = []
        st["delivered"] = delivered

        def deliver(i, ev):
            data = _build_msg(ev, rid, api)
            if ev["kind"] == "progress" and ev.get("token") == "right?" and ptoken is not None:
                data["params"]["progressToken"] = ptoken  # the token the request announced
            if isinstance(data, list):
                # a JSONRPCBatch* value (type-legal member of the JSONRPCMessage union): list of built members
                obj = [build_inbound(mode, d) for d in data]
                if any(o is None for o in obj):
                    obj = None
            else:
                obj = build_inbound(mode, data)
            if obj is None:
                sim.rec("peer", "unbuildable", ev["kind"])
                return
            if st.get("t_closed") is not None:
                sim.rec("peer", "undeliverable-after-close", ev["kind"])
                return
            e = sim.rec("peer", "deliver:" + ev["kind"], None)
            delivered.append({"eseq": e, "t": sim.now(), "i": i, "ev": ev, "data": data})
            to_client_send.send_nowait(obj)

        for i, ev in enumerate(scn["events"]):
            sim.at(ticks(ev["t"]), deliver, i, ev, tie=ev["tie"], hops=ev["hops"])
        if scn.get("close_at") is not None:
            def close_stream():
                st["t_closed"] = sim.now()
                st["closed_eseq"] = sim.rec("peer", "read-stream-closed", None)
                sim.fault("read_stream_closed_while_pending")
                to_client_send.close()
            sim.at(ticks(scn["close_at"]), close_stream, tie=2)

        if T0 > 0:
            await anyio.sleep(T0)
        sim.rec("client", "call", api)
        st["t_call"] = sim.now()
        try:
            if api == "send_message":
                kw = dict(timeout=timeout)
                if scn["message_id"] is not None:
                    kw["message_id"] = scn["message_id"]
                import copy
                if with_progress:
                    async def _cb(progress, total, message):
                        st.setdefault("cb", []).append((progress, total, message))
                    kw["progress_callback"] = _cb
                if scn.get("with_token"):
                    kw["cancellation_token"] = sm.CancellationToken()
                p_in = copy.deepcopy(scn["params"])
                try:
                    res = await sm.send_message(rr, ws, scn["method"], p_in, **kw)
                finally:
                    if isinstance(p_in, dict):
                        # the caller goes on using (and changing) its own dict; what was written must not change with it
                        p_in["changed_by_caller_after_the_call"] = True
            else:
                kwargs, _, _, _ = _helpers()[api]
                res = await _helper_fn(api)(rr, ws, timeout=timeout, **kwargs)
            st["outcome"] = ("return", res)
        except BaseException as e:  # noqa
            st["outcome"] = ("raise", e)
        st["t_done"] = sim.now()
        sim.rec("client", "done", st["outcome"][0])
        if scn.get("follow_up"):
            st["n_writes_first"] = len(ws.items)
            # drain what the first call left unread, then use the same streams again
            with anyio.move_on_after(2.0):
                while True:
                    await to_client_recv.receive()

            def answer_followup():
                for (_e, _t, _tn, item) in ws.items[st["n_writes_first"]:]:
                    d_ = dump(item)
                    if d_.get("method") == "x/follow-up":
                        to_client_send.send_nowait(build_inbound(mode, {"jsonrpc": "2.0", "id": d_["id"], "result": {"follow": "up"}}))
                        return
                sim.rec("peer", "follow-up-request-not-seen", None)
            sim.at(sim.now() + ticks(3), answer_followup, tie=2)
            try:
                st["follow"] = ("return", await sm.send_message(rr, ws, "x/follow-up", None, timeout=1.0, message_id="follow-up-id"))
            except BaseException as e2:  # noqa
                st["follow"] = ("raise", e2)
        # quiescence: nothing else may be written afterwards
        await anyio.sleep(1.0 + (ticks(sw["delay"]) if sw else 0.0))

    with patched((_uuid, "uuid4", fu)):
        info = run_sim(main, max_steps=50_000, max_vtime=100.0)
    sim = info.sim
    out = {"violations": [], "digest": sim.digest(), "isig": sim.isig(), "faults": dict(sim.faults),
           "probes": dict(sim.probes), "vtime": info.vtime, "steps": info.steps, "harness": list(sim.harness_errors),
           "nontrivial": False, "history": None}
    if info.deadlock or info.limit or info.exc is not None or "outcome" not in st:
        out["harness"].append(f"run did not complete: deadlock={info.deadlock} limit={info.limit} exc={info.exc!r}")
        return out
    _oracle(scn, st, rid, sim, out)
    return out


def _v(out, cls, sig, msg):
    out["violations"].append({"cls": f"C01/{cls}", "sig": f"C01/{cls}:{sig}", "msg": msg})


def _is_matching_response(data, rid):
    return (isinstance(data, dict) and "method" not in data and "id" in data
            and type(data["id"]) is type(rid) and data["id"] == rid and ("result" in data or "error" in data))


def _oracle(scn, st, rid, sim, out):
    api, timeout = scn["api"], scn["timeout"]
    ws, rr, delivered = st["ws"], st["rr"], st["delivered"]
    kind, val = st["outcome"]
    probes = out["probes"]

    def probe(k):
        probes[k] = probes.get(k, 0) + 1

    # ---- write side: exactly one request, right content, before any wait ----------------
    writes = [(e, t, dump(item)) for (e, t, _tn, item) in ws.items]
    if "follow" in st:
        probe("follow_up_call_on_same_streams")
        fw = writes[st["n_writes_first"]:]
        writes = writes[:st["n_writes_first"]]
        fk, fv = st["follow"]
        if not (fk == "return" and fv == {"follow": "up"}) or len(fw) != 1:
            _v(out, "follow-up", "second-call-on-same-streams", f"after the first call ended ({kind}), a second request on the same streams ended with "
                                                                 f"{fk}:{type(fv).__name__}:{str(fv)[:80]} and wrote {len(fw)} message(s); its answer was delivered 3 ticks after it was written")
    if len(writes) != 1:
        _v(out, "write-count", str(len(writes)), f"{len(writes)} messages written, expected exactly 1: {writes!r:.300}")
        t_w = st["t_call"]
    else:
        e_w, t_w, w = writes[0]
        exp_params = scn["params"]
        if scn.get("with_progress"):
            import copy as _c
            exp_params = _c.deepcopy(exp_params) if exp_params is not None else {}
            exp_params.setdefault("_meta", {})["progressToken"] = str(FakeUUID(scn["uuid_seed"]).value(0))
            probe("call_with_progress_callback")
        ok = (w.get("jsonrpc") == "2.0" and w.get("method") == scn["method"] and w.get("id") == rid
              and type(w.get("id")) is str)
        if exp_params is None:
            ok = ok and "params" not in w
        else:
            ok = ok and w.get("params") == exp_params
        if not ok:
            _v(out, "write-content", "request", f"request written {w!r:.300} != expected id={rid!r} method={scn['method']!r} params={exp_params!r}")
        if rr.calls and rr.calls[0][0] < e_w:
            _v(out, "write-order", "wait-before-write", "receive() was called before the request was written")
        if scn.get("slow_writer"):
            probe("write_stream_stalled")
        elif t_w != st["t_call"]:
            _v(out, "write-order", "late-write", f"request written at {t_w}, call started at {st['t_call']}")
    deadline = t_w + timeout

    # ---- reference model ---------------------------------------------------------------
    mstar, at_edge = None, []
    for d in delivered:
        if _is_matching_response(d["data"], rid):
            if d["t"] < deadline:
                mstar = d
                break
            elif d["t"] == deadline:
                at_edge.append(d)
                break
    for d in delivered:
        k = d["ev"]["kind"]
        if d["t"] == deadline:
            probe("delivery_exactly_at_deadline")
        if t_w <= d["t"] <= deadline and ((d["t"] - t_w) / POLL) == int((d["t"] - t_w) / POLL):
            probe("delivery_exactly_on_poll_edge")
        if d["t"] > deadline and _is_matching_response(d["data"], rid):
            probe("match_after_deadline")
        if k == "same_id_request":
            probe("same_id_request_delivered")
        if k == "batch":
            probe("batch_delivered")
        if d["t"] < st["t_call"]:
            probe("prequeued_before_call")
        if not (mstar is not None and d is mstar):
            out["faults"]["distractor:" + k] = out["faults"].get("distractor:" + k, 0) + 1

    consumed_inflight = [g for g in rr.got]
    distractors = [d for d in delivered if not (mstar is not None and d is mstar)]
    out["nontrivial"] = bool(consumed_inflight) and (len(delivered) >= 2 or bool(at_edge) or (mstar is None and bool(delivered)))

    def expected_for(d):
        data = d["data"]
        if "error" in data:
            return ("error", data["error"]["code"])
        return ("result", data["result"])

    acceptable = []
    if mstar is not None:
        acceptable.append(expected_for(mstar))
    else:
        acceptable.append(("timeout", None))
        for d in at_edge:
            acceptable.append(expected_for(d))
        if st.get("t_closed") is not None and st["t_closed"] <= deadline:
            # no matching response and the stream went away: the call must FAIL (how is open: end-of-stream error now, or the timeout) - never return
            acceptable.append(("closed", None))
            probe("stream_closed_without_matching_response")
    if scn.get("with_token"):
        probe("call_with_never_fired_token")

    # ---- actual outcome ----------------------------------------------------------------
    actual = _classify(api, kind, val, rid)
    out["history"] = {
        "request_id": rid, "deadline": deadline, "t_done": st["t_done"],
        "delivered": [{"t": d["t"], "eseq": d["eseq"], "kind": d["ev"]["kind"], "data": d["data"]} for d in delivered][:14],
        "outcome": repr(actual)[:300], "acceptable": repr(acceptable)[:300],
    }
    if not _outcome_ok(api, actual, acceptable):
        cause = _cause(actual, delivered, mstar, rid)
        if actual[0] == "timeout":
            _v(out, "missed-response", cause, f"call timed out although a matching response was delivered before the deadline: acceptable={acceptable!r:.200}")
        elif actual[0] in ("result", "bool"):
            _v(out, "wrong-payload", cause, f"call returned {actual!r:.200}; acceptable={acceptable!r:.200}")
        elif actual[0] == "error":
            _v(out, "wrong-error", cause, f"call raised JSON-RPC error {actual!r:.200}; acceptable={acceptable!r:.200}")
        else:
            _v(out, "unexpected-exception", actual[1], f"call raised {actual!r:.200}; acceptable={acceptable!r:.200}")
    if actual[0] == "timeout" and ("timeout", None) in acceptable and st["t_done"] != deadline and api == "send_message" and st.get("t_closed") is None:
        _v(out, "timeout-instant", "not-at-deadline", f"TimeoutError raised at {st['t_done']}, deadline was {deadline}")


def _classify(api, kind, val, rid):
    from chuk_mcp.protocol.types.errors import RetryableError, NonRetryableError

    if kind == "raise":
        if isinstance(val, TimeoutError):
            return ("timeout", None)
        if isinstance(val, (RetryableError, NonRetryableError)):
            return ("error", getattr(val, "code", None))
        return ("exception", type(val).__name__, str(val)[:120])
    if api in BOOL_HELPERS:
        return ("bool", val)
    if api in ("send_message", "send_logging_set_level", "send_sampling_create_message"):
        return ("result", val)
    try:
        return ("result", val.model_dump(exclude_none=True, by_alias=True))
    except Exception:
        return ("result", val)


def _contains_marker(x, m):
    import json
    try:
        return (f'"{m}"' in json.dumps(x, default=str)) or (f"/{m}\"" in json.dumps(x, default=str))
    except Exception:
        return False


def _outcome_ok(api, actual, acceptable):
    for acc in acceptable:
        if acc[0] == "closed":
            if actual[0] in ("exception", "timeout"):
                return True
            continue
        if acc[0] == "timeout":
            if api in BOOL_HELPERS:
                if actual == ("bool", False):
                    return True
            elif actual[0] == "timeout":
                return True
        elif acc[0] == "error":
            if api in BOOL_HELPERS:
                if actual == ("bool", False):
                    return True
            elif actual[0] == "error" and actual[1] == acc[1]:
                return True
        else:  # result
            payload = acc[1]
            if api in BOOL_HELPERS:
                if actual == ("bool", True):
                    return True
            elif actual[0] == "result":
                if api in ("send_message", "send_logging_set_level", "send_sampling_create_message"):
                    if payload is None:
                        # documented fallback: None result -> full envelope (or None)
                        if actual[1] is None or (isinstance(actual[1], dict) and actual[1].get("result", 0) is None and "method" not in actual[1]):
                            return True
                    elif actual[1] == payload and type(actual[1]) is type(payload):
                        return True
                else:
                    # typed helper: returned model must carry exactly the payload's marker
                    mk = _marker_of(payload)
                    if mk and _contains_marker(actual[1], mk):
                        return True
    return False


def _marker_of(payload):
    import json, re
    m = re.search(r"mk\d+", json.dumps(payload))
    return m.group(0) if m else None


def _cause(actual, delivered, mstar, rid):
    """Which delivered message does the returned value correspond to?"""
    if actual[0] in ("result", "bool"):
        import json
        s = json.dumps(actual[1], default=str, sort_keys=True)
        for d in delivered:
            if d is mstar:
                continue
            if f'"{d["ev"]["m"]}"' in s or f'/{d["ev"]["m"]}"' in s:
                return "returned=" + d["ev"]["kind"]
        for d in delivered:
            if d is not mstar and isinstance(d["data"], dict) and d["data"].get("id") == rid:
                return "returned=" + d["ev"]["kind"]
        return "returned=unknown"
    if actual[0] == "timeout":
        return "timeout-despite-match"
    if actual[0] == "error":
        return "error-code-mismatch"
    return "other"
