"""C08 - server dispatch: one response per request, none per notification, never a crash.

SUT: real MCPServer + ProtocolHandler.handle_message with simulator-controlled tool/resource/custom
handlers (return, raise, return nonsense, await virtual time first, raise after the await).
Environment: 1..3 simulated clients, messages dispatched serially or one task per message.
Oracle: conservation over the history (exactly one response per request id, of the right class; none
per notification; handle_message never raises).
"""
from __future__ import annotations

import copy
import json
import random

import anyio

from sim.loop import run_sim, ticks

ID = "C08"
LEVEL = "exploration"
RULE = ("scenario = 1..3 clients x 1..8 messages (requests and notifications over core methods, tool/resource methods, every standard MCP "
        "notification name, random method strings; params of every JSON shape; ids 0/negative/big/strings/empty) x handler behaviour per call "
        "(buggify: returns / raises / returns nonsense / sleeps first / raises after sleeping) x dispatch mode (serial / task per message); "
        "non-trivial = a notification was dispatched to something other than notifications/initialized, or a handler fault fired, or dispatches overlapped")
PROBES = ["dispatch_on_session_from_earlier_initialize", "second_server_instance", "notification_unregistered_method", "notification_to_request_method", "handler_raised", "handler_returned_nonsense",
          "dispatches_overlapped", "unknown_tool_or_resource", "unhashable_name", "empty_method", "id_zero_or_empty"]
TIERS = {"quick": {"runs": 25000, "wall": 45.0}, "thorough": {"runs": 2000000, "wall": 560.0}}
ASSUMPTIONS = [
    "incoming messages are well-formed envelopes (typed classes or parse_message output); responses as input are out of the sentence",
    "malformed tool arguments (null / wrong type) may be answered with -32602 or -32603; an empty method string with -32600 or -32601",
    "the handler holds no cross-request state besides sessions, so the schedule dimension adds little; the deciding parts are the handler fault matrix and the id-less half of the input space",
]
SHRINK_LISTS = ["msgs"]

STD_NOTIFS = ["notifications/initialized", "notifications/cancelled", "notifications/progress", "notifications/roots/list_changed",
              "notifications/message", "notifications/resources/updated", "notifications/resources/list_changed",
              "notifications/tools/list_changed", "notifications/prompts/list_changed"]
CORE = ["initialize", "ping", "tools/list", "tools/call", "resources/list", "resources/read", "custom/ok", "custom/raises", "custom/slow",
        "custom/raises_empty", "custom/raises_unprintable"]
RANDOM_METHODS = ["", " ", "nope", "other/only", "tools/call/extra", "rpc.internal", "TOOLS/LIST", "ünï/codé", "notifications/", "a" * 200, "tools\ncall", "tools/\ud83d", "\udc00"]
IDS = [0, 1, -5, 2 ** 53 + 1, 10 ** 30, "", "abc", "0", "id with space", "ü", "x" * 100]
BEHAV = ["ok_str", "ok_dict", "ok_list", "ok_none", "raise_value", "raise_key", "raise_runtime", "raise_type", "nonsense_obj", "nonsense_set",
         "nonsense_badstr", "sleep_ok", "sleep_raise", "raise_empty", "raise_assert", "raise_notimpl", "raise_unprintable", "raise_surrogate", "raise_code_int", "raise_code_str", "raise_code_none", "ok_cyclic_list"]


def _params_for(method, rng):
    if method == "tools/call":
        name = rng.choice(["echo", "echo", "flaky", "missing-tool", None, 5, ["echo"], {"n": 1}, "tool\udc00"])
        p = {"name": name, "arguments": rng.choice([{"text": "hi"}, {}, None, ["x"], "str", 7, {"unexpected": 1, "text": "t"}])}
        if rng.random() < 0.15:
            del p["arguments"]
        if rng.random() < 0.1:
            del p["name"]
        return rng.choice([p, p, p, None, {}])
    if method == "resources/read":
        return rng.choice([{"uri": "file:///a.txt"}, {"uri": "file:///flaky"}, {"uri": "file:///missing"}, {"uri": "file:///\ud83d"}, {"uri": None}, {"uri": ["x"]}, {}, None])
    if method == "initialize":
        return rng.choice([None, {}, {"protocolVersion": "2025-06-18", "clientInfo": {"name": "c", "version": "1"}, "capabilities": {}},
                           {"protocolVersion": 5, "clientInfo": "str"}, {"protocolVersion": "2025-06-18", "clientInfo": None, "capabilities": {}},
                           {"protocolVersion": "2025-03-26", "clientInfo": ["n", 1]}, {"protocolVersion": "2025-06-18", "clientInfo": 7}])
    return rng.choice([None, None, {}, {"a": 1}, {"requestId": 3, "reason": "x"}, {"progressToken": "t", "progress": 1}, {"_meta": {}}])


def generate(rng: random.Random, tier: str) -> dict:
    msgs = []
    nclients = rng.choice([1, 1, 2, 3])
    for _ in range(rng.choice([1, 2, 4, 8] if tier == "quick" else [2, 4, 8, 8])):
        is_notif = rng.random() < 0.45
        r = rng.random()
        if r < 0.45:
            method = rng.choice(CORE)
        elif r < 0.75:
            method = rng.choice(STD_NOTIFS)
        else:
            method = rng.choice(RANDOM_METHODS)
        m = {"client": rng.randrange(nclients), "method": method, "params": _params_for(method, rng), "notif": is_notif,
             "build": rng.choice(["typed", "parse_message"]), "behav": rng.choice(BEHAV), "sleep": rng.choice([1, 10, 200]),
             "session": rng.choice([None, None, "unknown", "known", "initialized", "initialized"]), "gap": rng.choice([0, 0, 1, 5])}
        if not is_notif:
            m["id"] = rng.choice(IDS)
        if rng.random() < 0.08:
            m["cancel_after"] = rng.choice([0, 1, 5, 30])   # the task dispatching this message is cancelled (its connection went away)
        msgs.append(m)
    mode = rng.choice(["serial", "task_per_message"])
    if rng.random() < 0.06:
        # several clients ask for the same thing at the same time; the one that asked first goes away (its dispatch is cancelled mid-handler)
        mode = "task_per_message"
        what = rng.choice([("resources/read", {"uri": "file:///a.txt"}), ("tools/call", {"name": "echo", "arguments": {"text": "same"}}), ("custom/slow", None)])
        lead = {"client": 0, "method": what[0], "params": copy.deepcopy(what[1]), "notif": False, "build": "typed", "behav": "sleep_ok", "sleep": rng.choice([50, 200]),
                "session": None, "gap": 0, "id": "lead", "cancel_after": rng.choice([1, 5, 20])}
        if rng.random() < 0.5:
            # ... or the first one's handler fails after the others have entered theirs
            del lead["cancel_after"]
            lead["behav"] = "sleep_raise"
        followers = [{"client": 1 + j, "method": what[0], "params": copy.deepcopy(what[1]), "notif": False, "build": "typed", "behav": "sleep_ok", "sleep": 10,
                      "session": None, "gap": rng.choice([0, 1, 3, 300]), "id": f"follow-{j}"} for j in range(rng.choice([1, 2, 3]))]
        msgs = [lead] + followers + msgs[:2]
    if rng.random() < 0.25:
        msgs.insert(0, {"client": 0, "method": "initialize", "params": _params_for("initialize", rng), "notif": False, "build": rng.choice(["typed", "parse_message"]),
                        "behav": "ok_str", "sleep": 1, "session": None, "gap": 0, "id": "init-0"})
    return {"v": 1, "mode": mode, "msgs": msgs, "second_server": rng.random() < 0.3}


def simplify(scn):
    if scn.get("second_server"):
        c = copy.deepcopy(scn); c["second_server"] = False; yield c
    if scn["mode"] != "serial":
        c = copy.deepcopy(scn); c["mode"] = "serial"; yield c
    for i, m in enumerate(scn["msgs"]):
        if m.get("cancel_after") is not None:
            c = copy.deepcopy(scn); del c["msgs"][i]["cancel_after"]; yield c
    for i, m in enumerate(scn["msgs"]):
        if m["behav"] != "ok_str":
            c = copy.deepcopy(scn); c["msgs"][i]["behav"] = "ok_str"; yield c
        if m["params"] is not None:
            c = copy.deepcopy(scn); c["msgs"][i]["params"] = None; yield c
        if m["session"]:
            c = copy.deepcopy(scn); c["msgs"][i]["session"] = None; yield c
        if m["build"] != "typed":
            c = copy.deepcopy(scn); c["msgs"][i]["build"] = "typed"; yield c
        if m.get("gap"):
            c = copy.deepcopy(scn); c["msgs"][i]["gap"] = 0; yield c


class _Unprintable(Exception):
    def __str__(self):
        raise RuntimeError("this exception cannot be printed")


class _BadStr:
    def __str__(self):
        raise RuntimeError("__str__ failed")

    __repr__ = __str__


def execute(scn: dict) -> dict:
    from chuk_mcp.server.server import MCPServer
    from chuk_mcp.protocol.messages.json_rpc_message import JSONRPCRequest, JSONRPCNotification, parse_message

    st = {"results": {}, "active": 0, "overlap": False, "handler_faults": 0, "nonsense": 0}

    async def main(sim):
        server = MCPServer("sim-server")
        ph = server.protocol_handler
        cur = {}

        async def behave(kind, sleep):
            if kind.startswith("sleep"):
                st["active"] += 1
                if st["active"] > 1:
                    st["overlap"] = True
                try:
                    await anyio.sleep(ticks(sleep))
                finally:
                    st["active"] -= 1
            if kind in ("raise_value", "sleep_raise"):
                st["handler_faults"] += 1
                raise ValueError("injected handler failure")
            if kind == "raise_key":
                st["handler_faults"] += 1
                raise KeyError("missing")
            if kind == "raise_runtime":
                st["handler_faults"] += 1
                raise RuntimeError("boom")
            if kind == "raise_type":
                st["handler_faults"] += 1
                raise TypeError("bad type")
            if kind == "raise_empty":
                st["handler_faults"] += 1
                raise ValueError("")  # an exception without any text
            if kind == "raise_assert":
                st["handler_faults"] += 1
                assert False
            if kind == "raise_notimpl":
                st["handler_faults"] += 1
                raise NotImplementedError
            if kind == "raise_unprintable":
                st["handler_faults"] += 1
                raise _Unprintable()
            if kind == "ok_cyclic_list":
                # a result that contains itself (a buggy tool): formatting it cannot succeed, the request still has to be answered
                loop_ = ["head"]
                loop_.append(loop_)
                st["handler_faults"] += 1
                return loop_
            if kind in ("raise_code_int", "raise_code_str", "raise_code_none"):
                # exceptions of other libraries that happen to have a `code` attribute (urllib's HTTPError: int, API clients: str or None)
                st["handler_faults"] += 1
                exc_ = OSError("upstream said no")
                exc_.code = {"raise_code_int": 404, "raise_code_str": "rate_limit_exceeded", "raise_code_none": None}[kind]
                raise exc_
            if kind == "raise_surrogate":
                st["handler_faults"] += 1
                raise RuntimeError("cannot open '\udcff\ud83d.txt'")  # text with lone surrogates (os.fsdecode of a bad file name)
            if kind == "nonsense_obj":
                st["nonsense"] += 1
                return object()
            if kind == "nonsense_set":
                st["nonsense"] += 1
                return {1, 2}
            if kind == "nonsense_badstr":
                st["nonsense"] += 1
                return _BadStr()
            return {"ok_str": "text", "ok_dict": {"k": [1, None]}, "ok_list": ["a", {"b": 1}], "ok_none": None, "sleep_ok": "slept"}[kind]

        async def echo_tool(text: str = "", **kw):
            b = cur.get("behav", "ok_str")
            return await behave(b, cur.get("sleep", 1))

        async def flaky_tool(**kw):
            st["handler_faults"] += 1
            raise RuntimeError("flaky always fails")

        async def res_a():
            return await behave(cur.get("behav", "ok_str"), cur.get("sleep", 1))

        async def res_flaky():
            st["handler_faults"] += 1
            raise OSError("disk error")

        server.register_tool("echo", echo_tool, {"type": "object"}, "echo")
        server.register_tool("flaky", flaky_tool, {"type": "object"}, "flaky")
        server.register_resource("file:///a.txt", res_a, name="a")
        server.register_resource("file:///flaky", res_flaky, name="flaky")

        async def custom_ok(message, session_id):
            return ph.create_response(message.id, {"custom": True}), None

        async def custom_raises(message, session_id):
            st["handler_faults"] += 1
            if cur.get("behav", "").startswith("raise_code"):
                await behave(cur["behav"], 1)
            raise RuntimeError("custom handler failed")

        async def custom_slow(message, session_id):
            await behave("sleep_ok", 50)
            return ph.create_response(message.id, {"custom": "slow"}), None

        async def custom_raises_empty(message, session_id):
            st["handler_faults"] += 1
            raise TimeoutError()

        async def custom_raises_unprintable(message, session_id):
            st["handler_faults"] += 1
            raise _Unprintable()

        ph.register_method("custom/raises_empty", custom_raises_empty)
        ph.register_method("custom/raises_unprintable", custom_raises_unprintable)
        ph.register_method("custom/ok", custom_ok)
        ph.register_method("custom/raises", custom_raises)
        ph.register_method("custom/slow", custom_slow)
        known_sid = ph.session_manager.create_session({"name": "pre"}, "2025-06-18")
        if scn.get("second_server"):
            # an unrelated second server object built (and given other handlers) after the first: it must not affect the first
            other = MCPServer("other-server")

            async def other_tool(**kw):
                return "from-other-server"

            other.register_tool("other-only", other_tool, {"type": "object"}, "other")
            other.protocol_handler.register_method("other/only", custom_ok)
            other.protocol_handler.register_method("custom/raises", custom_ok)   # same name, different behaviour, on the OTHER server
            sim.probe("second_server_instance")

        async def dispatch(k, m):
            d = {"jsonrpc": "2.0", "method": m["method"]}
            if m["params"] is not None:
                d["params"] = copy.deepcopy(m["params"])
            if not m["notif"]:
                d["id"] = m["id"]
            try:
                if m["build"] == "parse_message":
                    msg = parse_message(d)
                else:
                    msg = (JSONRPCNotification if m["notif"] else JSONRPCRequest).model_validate(d)
            except Exception as e:
                st["results"][k] = ("unbuildable", repr(e)[:80])
                return
            # "initialized": the session id handed out by the latest initialize of this run (whatever clientInfo that one carried)
            sid = {None: None, "unknown": "no-such-session", "known": known_sid, "initialized": st.get("last_init_sid")}[m["session"]]
            if m["session"] == "initialized" and sid is not None:
                sim.probe("dispatch_on_session_from_earlier_initialize")
            cur["behav"], cur["sleep"] = m["behav"], m["sleep"]
            sim.rec(f"client-{m['client']}", "dispatch", None)
            try:
                res = await ph.handle_message(msg, sid)
                st["results"][k] = ("return", res)
                if m["method"] == "initialize" and isinstance(res, tuple) and len(res) == 2 and isinstance(res[1], str):
                    st["last_init_sid"] = res[1]
            except BaseException as e:  # noqa
                st["results"][k] = ("raise", e)
            sim.rec("server", "dispatched", None)

        if scn["mode"] == "serial":
            for k, m in enumerate(scn["msgs"]):
                if m["gap"]:
                    await anyio.sleep(ticks(m["gap"]))
                await dispatch(k, m)
        else:
            async def dispatch_cancellable(k, m):
                with anyio.CancelScope() as scope:
                    sim.at(sim.now() + ticks(m["cancel_after"]), scope.cancel, tie=2)
                    await dispatch(k, m)
                if k not in st["results"] or (st["results"][k][0] == "raise" and isinstance(st["results"][k][1], BaseException)
                                              and not isinstance(st["results"][k][1], Exception)):
                    st["results"][k] = ("cancelled",)
                    sim.fault("dispatch_task_cancelled_mid_handler")

            async with anyio.create_task_group() as tg:
                for k, m in enumerate(scn["msgs"]):
                    if m["gap"]:
                        await anyio.sleep(ticks(m["gap"]))
                    tg.start_soon(dispatch_cancellable if m.get("cancel_after") is not None else dispatch, k, m, name=f"dispatch-{k}")

    cyclic = any(m.get("behav") == "ok_cyclic_list" for m in scn["msgs"])
    if cyclic:
        # a step that never yields cannot be bounded by the simulator's own caps: a real-time watchdog (only ever fires on a stuck step)
        import signal

        class _StuckStep(BaseException):
            pass

        def _on_alarm(signum, frame):
            raise _StuckStep()
        old_handler = signal.signal(signal.SIGALRM, _on_alarm)
        signal.setitimer(signal.ITIMER_REAL, 20.0)
        try:
            info = run_sim(main, max_steps=200_000, max_vtime=1000.0)
        except _StuckStep:
            signal.setitimer(signal.ITIMER_REAL, 0)
            signal.signal(signal.SIGALRM, old_handler)
            return {"violations": [{"cls": "C08/request-unanswered", "sig": "C08/request-unanswered:dispatch-never-returned:busy-step",
                                    "msg": "a dispatch step ran for 20 s of real time without yielding (a tool result containing itself): no response, and the whole server is stuck"}],
                    "digest": "stuck", "isig": "stuck", "faults": {}, "probes": {}, "vtime": 0.0, "steps": 0, "harness": [], "nontrivial": True, "history": None}
        finally:
            signal.setitimer(signal.ITIMER_REAL, 0)
            signal.signal(signal.SIGALRM, old_handler)
    else:
        info = run_sim(main, max_steps=200_000, max_vtime=1000.0)
    sim = info.sim
    out = {"violations": [], "digest": sim.digest(), "isig": sim.isig(), "faults": dict(sim.faults),
           "probes": dict(sim.probes), "vtime": info.vtime, "steps": info.steps, "harness": list(sim.harness_errors),
           "nontrivial": False, "history": None}
    if info.limit or info.exc is not None:
        out["harness"].append(f"run did not complete: deadlock={info.deadlock} limit={info.limit} exc={info.exc!r}")
        return out

    def V(cls, sig, msg):
        out["violations"].append({"cls": f"C08/{cls}", "sig": f"C08/{cls}:{sig}", "msg": msg})

    if info.deadlock:
        # nothing is runnable and no timer is pending, yet some dispatch has not returned: those requests can never be answered
        # (tearing the run down cancels what is stuck: a cancellation recorded for a message nobody cancelled is that teardown)
        stuck = [k for k in range(len(scn["msgs"])) if k not in st["results"]
                 or (st["results"][k][0] == "raise" and not isinstance(st["results"][k][1], Exception) and scn["msgs"][k].get("cancel_after") is None)]
        for k in stuck:
            m = scn["msgs"][k]
            V("request-unanswered" if not m["notif"] else "dispatch-raised", "dispatch-never-returned:" + m["method"][:30],
              f"dispatch of message #{k} ({'notification' if m['notif'] else 'request id=' + repr(m.get('id'))} {m['method']!r:.40}) never returned: the server is stuck")
        if not stuck:
            out["harness"].append("deadlock without a stuck dispatch")
        return out

    def probe(k):
        out["probes"][k] = out["probes"].get(k, 0) + 1

    registered = {"initialize", "notifications/initialized", "ping", "tools/list", "tools/call", "resources/list", "resources/read",
                  "custom/ok", "custom/raises", "custom/slow", "custom/raises_empty", "custom/raises_unprintable"}
    hist = []
    nontrivial = st["overlap"]
    for k, m in enumerate(scn["msgs"]):
        r = st["results"].get(k)
        if r is None:
            V("lost", "no-outcome", f"message #{k} produced no outcome")
            continue
        if r[0] == "unbuildable":
            continue
        if r[0] == "cancelled":
            probe("dispatch_cancelled")  # nothing is owed to a caller that went away; everybody else must still be served
            continue
        method = m["method"]
        mclass = ("registered" if method in registered else ("std-notification" if method in STD_NOTIFS else "random"))
        desc = f"{'notification' if m['notif'] else 'request'} {method!r:.40} params={m['params']!r:.60} behav={m['behav']} build={m['build']}"
        if r[0] == "raise":
            e = r[1]
            V("dispatch-raised", f"{'notification' if m['notif'] else 'request'}:{mclass}:{type(e).__name__}",
              f"handle_message raised {type(e).__name__}: {str(e)[:160]} for {desc}")
            hist.append((k, desc, "RAISED " + type(e).__name__))
            continue
        res = r[1]
        if not (isinstance(res, tuple) and len(res) == 2):
            V("return-shape", mclass, f"handle_message returned {res!r:.100} for {desc}")
            continue
        resp, _sid = res
        if m["notif"]:
            if method != "notifications/initialized":
                nontrivial = True
            if method not in registered:
                probe("notification_unregistered_method")
            elif not method.startswith("notifications/"):
                probe("notification_to_request_method")
            if resp is not None:
                V("notification-answered", mclass, f"a response {resp!r:.120} was returned for {desc}")
            hist.append((k, desc, "none" if resp is None else "RESPONSE"))
            continue
        # request: exactly one response with the same id (value and type)
        if resp is None:
            V("request-unanswered", method if method in registered else mclass, f"no response for {desc} id={m['id']!r}")
            continue
        rid = getattr(resp, "id", None)
        if rid != m["id"] or type(rid) is not type(m["id"]):
            V("wrong-id", mclass, f"response id {rid!r} ({type(rid).__name__}) for request id {m['id']!r} ({type(m['id']).__name__})")
        if m["id"] in (0, ""):
            probe("id_zero_or_empty")
        err = getattr(resp, "error", None)
        result = getattr(resp, "result", None)
        if (err is None) == (result is None):
            V("response-shape", mclass, f"response has result={result!r:.60} error={err!r:.60}")
            continue
        code = err.get("code") if err else None
        # expected class
        p = m["params"] if isinstance(m["params"], dict) else {}
        exp = None
        if method == "":
            exp = {-32600, -32601}; probe("empty_method")
        elif method not in registered:
            exp = {-32601}
        elif method == "notifications/initialized":
            exp = {"any"}  # a request to a notification-only method: any single response
        elif method in ("initialize", "ping", "tools/list", "resources/list", "custom/ok", "custom/slow"):
            exp = {"result"}
            if method == "initialize" and not (m["params"] is None or isinstance(p.get("clientInfo", {}), dict)):
                exp = {"result", -32602, -32603}
        elif method in ("custom/raises", "custom/raises_empty", "custom/raises_unprintable"):
            exp = {-32603}
        elif method == "tools/call":
            name = p.get("name")
            args = p.get("arguments", {})
            try:
                hash(name)
                hashable = True
            except TypeError:
                hashable = False
            if not hashable:
                exp = {-32602, -32603}; probe("unhashable_name")
            elif name not in ("echo", "flaky"):
                exp = {-32602}; probe("unknown_tool_or_resource")
            elif name == "flaky":
                exp = {-32603} if isinstance(args, dict) else {-32602, -32603}
            elif not isinstance(args, dict) or any(a not in ("text",) for a in args) and False:
                exp = {-32602, -32603}
            else:
                b = m["behav"]
                if b.startswith("raise") or b in ("sleep_raise", "nonsense_badstr", "ok_cyclic_list"):
                    exp = {-32603}
                else:
                    exp = {"result"}
        elif method == "resources/read":
            uri = p.get("uri")
            try:
                hash(uri)
                hashable = True
            except TypeError:
                hashable = False
            if not hashable:
                exp = {-32602, -32603}; probe("unhashable_name")
            elif uri not in ("file:///a.txt", "file:///flaky"):
                exp = {-32602}; probe("unknown_tool_or_resource")
            elif uri == "file:///flaky":
                exp = {-32603}
            else:
                b = m["behav"]
                exp = {-32603} if (b.startswith("raise") or b in ("sleep_raise", "nonsense_badstr")) else {"result"}
                if b == "ok_cyclic_list":
                    exp = {"result", -32603}   # a resource's content is only turned into text: either outcome answers the request
        actual = "result" if err is None else code
        if "any" not in exp and actual not in exp:
            V("wrong-class", f"{method if method in registered else mclass}:got={actual}:want={'/'.join(str(x) for x in sorted(exp, key=str))}",
              f"{desc} answered with {actual} ({(err or {}).get('message', '')!r:.80}); expected {exp}")
        if err is not None and not (isinstance(code, int) and isinstance(err.get("message"), str)):
            V("response-shape", "error-object", f"error object {err!r:.100}")
        # the line a minimal stdio loop would print parses back to the same id
        try:
            try:
                line = resp.model_dump_json(exclude_none=True)
            except Exception:
                # text with lone surrogates has no UTF-8 form; the \u-escaped form is the line such a response goes out as
                line = json.dumps(resp.model_dump(exclude_none=True), ensure_ascii=True)
                probe("response_text_with_lone_surrogate")
            back = json.loads(line)
            if "\n" in line or back.get("id") != m["id"] or type(back.get("id")) is not type(m["id"]) or back.get("jsonrpc") != "2.0":
                V("wire", "id-not-preserved", f"printed line {line!r:.160} does not carry id {m['id']!r}")
        except Exception as e:
            V("wire", "unserialisable-response:" + type(e).__name__, f"response for {desc} cannot be serialised: {e!r:.120}")
        hist.append((k, desc, str(actual)))
    if st["handler_faults"]:
        probe("handler_raised"); out["faults"]["handler_raise"] = st["handler_faults"]; nontrivial = True
    if st["nonsense"]:
        probe("handler_returned_nonsense"); out["faults"]["handler_nonsense"] = st["nonsense"]; nontrivial = True
    if st["overlap"]:
        probe("dispatches_overlapped")
    out["nontrivial"] = nontrivial
    out["history"] = {"mode": scn["mode"], "outcomes": hist[:16]}
    return out
