"""C12 - SSE transport: live-or-raise setup, exactly-once delivery, chunk-independent, clean exit.

SUT: real sse_client()/SSETransport + the real httpx client layer on SimHTTPTransport (GET /sse answered by a
live, chunked event stream; POSTs answered per scenario).
Fault space: establishment outcomes x per-request modes x relative order of POST completion and event arrival
(virtual time, tie, loop-iteration offset) x chunking of the event-stream bytes x server pushes x stream death x
exit paths (normal, exception, outer cancel scope, task.cancel()) at generated points of a request's life.
Oracle: live-or-raise, exactly-one-terminal per request, stream messages once and in order, resources released.
"""
from __future__ import annotations

import asyncio
import copy
import importlib
import json
import random

import anyio
import httpx

from sim.loop import run_sim, ticks
from sim.streams import patched
from sim.fakes.http import SimHTTPTransport, make_client_class

ID = "C12"
LEVEL = "exploration"
RULE = ("scenario = establishment outcome x 0..4 messages with per-request answer mode (200 body / 202 then event / event then 202 / 202 and "
        "silence / other status / exception) and timing (tie, hops) x server-pushed notifications/requests x chunking of the event bytes x "
        "optional stream death x exit path at a generated instant; non-trivial = establishment was not the plain immediate announcement, or a "
        "request was answered over the event stream, or the exit was not the plain normal path, or the stream was chunked inside an event")
PROBES = ["second_connection_opened_and_closed_meanwhile", "session_id_supplied_by_caller", "falsy_request_id", "event_then_post_failed", "establish_failed_status", "establish_no_announcement", "announce_at_timeout_edge", "event_before_202", "event_after_202", "silence_timeout",
          "post_failed", "chunk_inside_event", "chunk_inside_utf8", "server_push_delivered", "exit_cancel_scope", "exit_task_cancel",
          "exit_exception", "cancel_while_waiting_for_event", "stream_died", "int_request_id", "push_right_after_response_event"]
TIERS = {"quick": {"runs": 12000, "wall": 45.0}, "thorough": {"runs": 800000, "wall": 560.0}}
ASSUMPTIONS = [
    "httpx timeouts are raised by the fake at the configured instant; an event stream idle for `timeout` seconds raises ReadTimeout as real httpx does (the fake server sends keep-alive comments unless the scenario kills the stream)",
    "an announcement / answer landing exactly at a timeout instant accepts both outcomes",
    "relative order is only demanded among messages that travel on the event stream (responses in POST bodies travel on another connection)",
]
STUB = ["HTTP wire (GET /sse event stream and POST endpoint): SimHTTPTransport behind the real httpx.AsyncClient"]
SHRINK_LISTS = ["msgs", "pushes"]

BASE = "http://sim.test"
BASE2 = "http://other.test"
EST_KINDS = ["ok", "ok", "ok", "ok", "status", "connect_error", "empty_stream", "never_announce", "slow_announce", "connect_timeout", "ends_after_comment"]
FORMS = ["event_endpoint", "event_endpoint", "data_only_messages", "data_only_mcp", "query_params", "full_url", "event_endpoint_crlf"]
MODES = ["200_body", "200_body", "202_then_event", "202_then_event", "event_then_202", "202_silence", "other_status_json", "other_status_plain",
         "exc", "200_badjson", "202_then_event_dataonly", "event_then_exc", "event_then_status"]
TEXTS = ["plain", "é€\U0001F600", "ls\u2028ps\u2029nel\u0085end"]


def generate(rng: random.Random, tier: str) -> dict:
    timeout = rng.choice([1.0, 2.0, 4.0])
    tl = int(timeout * 1024)
    kind = rng.choice(EST_KINDS)
    est = {"kind": kind, "form": rng.choice(FORMS), "latency": rng.choice([0, 1, 20, 300]), "announce_at": rng.choice([0, 1, 10, 200]),
           "status": rng.choice([404, 500, 401, 204, 302]), "pre_comment": rng.random() < 0.3, "greet": rng.random() < 0.15}
    if kind == "slow_announce":
        est["latency"] = 0
        est["announce_at"] = tl + rng.choice([-10, -1, 0, 1, 10])
    msgs = []
    n = rng.choice([0, 1, 1, 2, 3, 4])
    for k in range(n):
        notif = rng.random() < 0.2
        mode = rng.choice(MODES)
        m = {"notif": notif, "gap": rng.choice([0, 0, 1, 30]), "mode": mode, "post_latency": rng.choice([1, 1, 5, 50, 300]),
             "event_at": rng.choice([0, 1, 3, 40, 200]), "hops": rng.choice([0, 0, 1, 3]), "tie": rng.choice([0, 2]),
             "status": rng.choice([400, 404, 500, 201, 204]), "exc": rng.choice(["ConnectError", "ReadTimeout", "RemoteProtocolError", "ReadError"]),
             "text": rng.choice(TEXTS)}
        if mode in ("event_then_202", "event_then_exc", "event_then_status"):
            m["post_latency"] = rng.choice([5, 50, 300])
            m["event_at"] = rng.choice([0, 1, m["post_latency"] - 1, m["post_latency"]])
        if mode == "event_then_exc":
            m["exc"] = rng.choice(["ConnectError", "RemoteProtocolError", "ReadError"])  # not the timeouts: those fire at `timeout`, not at post_latency
        if mode == "202_then_event" and rng.random() < 0.25:
            m["event_at"] = m["post_latency"] + tl + rng.choice([-10, -1, 0, 1, 10]) - m["post_latency"]  # around the per-request timeout
        if not notif:
            m["id"] = rng.choice([f"r{k}", f"r{k}", k + 1, f"{k + 1}"])
            if k == 0 and rng.random() < 0.15:
                m["id"] = rng.choice([0, 0, ""])  # falsy but valid ids
        else:
            m["mode"] = rng.choice(["202", "202", "exc", "other_status_plain"])
        m["push_after"] = rng.random() < 0.25  # a server notification written right behind the response event
        msgs.append(m)
    pushes = []
    for j in range(rng.choice([0, 0, 1, 2, 3])):
        pushes.append({"t": rng.randrange(0, 600), "kind": rng.choice(["notification", "notification", "request", "dataonly_notification", "request_reusing_id"]),
                       "text": rng.choice(TEXTS), "j": j, "reuse": rng.randrange(0, 4)})
    pushes.sort(key=lambda p: p["t"])
    chunk = rng.choice([None, None, {"n": 1}, {"n": 3}, {"n": 7}, {"n": 16}, {"split": "utf8"}, {"split": "crlf"}, {"split": "data_prefix"}])
    death = None
    if rng.random() < 0.12:
        death = {"t": rng.randrange(0, 800), "how": rng.choice(["end", "ReadError", "RemoteProtocolError"])}
    path = rng.choice(["normal", "normal", "exception", "cancel_scope", "task_cancel"])
    ex = {"path": path, "tie": rng.choice([0, 2]), "hops": rng.choice([0, 1, 3])}
    if path in ("cancel_scope", "task_cancel"):
        ex["t"] = rng.choice([0, 1, 5, 30, 100, 300, 305, 1000, rng.randrange(0, 3 * tl)])
    elif rng.random() < 0.3:
        ex["early"] = rng.choice([0, 1, 3, 10, 60, 350])
    if death and rng.random() < 0.5:
        # the event stream dies early in the session, a slow POST is still in flight when the context is left
        death["t"] = rng.choice([0, 1, 5, 20])
        for m in msgs[-1:]:
            m["post_latency"] = rng.choice([300, 600])
            if m["mode"] in ("event_then_202", "event_then_exc", "event_then_status"):
                m["event_at"] = min(m["event_at"], m["post_latency"])
    return {"v": 1, "timeout": timeout, "est": est, "msgs": msgs, "pushes": pushes, "chunk": chunk, "death": death, "exit": ex,
            "keepalive": True, "session_id": rng.choice([None, None, None, "resume-abc123"]),
            "bystander": ({"enter_at": rng.choice([0, 1, 30]), "stay": rng.choice([5, 60, 400, 1200]), "same_id_as": rng.choice([None, 0, 0])}
                          if (msgs and rng.random() < 0.2) else None)}


def systematic(tier: str):
    """Product establishment outcome x exit path x exit instant x answer mode of one request (fixed parameters)."""
    out = []
    kinds = ["ok", "status", "connect_error", "empty_stream", "never_announce", "slow_announce", "connect_timeout", "ends_after_comment"]
    modes = ["200_body", "202_then_event", "event_then_202", "202_silence", "other_status_json", "other_status_plain", "exc", "200_badjson"]
    for kind in kinds:
        for path in ["normal", "exception", "cancel_scope", "task_cancel"]:
            for t in ([None] if path in ("normal", "exception") else [0, 3, 40, 600, 1500]):
                for mode in (modes if kind in ("ok", "slow_announce") else modes[:1]):
                    for form in (FORMS if (kind == "ok" and mode == "200_body" and path == "normal") else FORMS[:1]):
                        est = {"kind": kind, "form": form, "latency": 1, "announce_at": 2, "status": 404, "pre_comment": False}
                        if kind == "slow_announce":
                            est["latency"], est["announce_at"] = 0, 1024 - 1
                        m = {"notif": False, "gap": 0, "mode": mode, "post_latency": 20, "event_at": 30, "hops": 0, "tie": 0, "status": 500,
                             "exc": "ConnectError", "text": TEXTS[-1], "id": 7 if mode in ("202_silence", "exc") else "r0", "push_after": mode == "202_then_event"}
                        if mode == "event_then_202":
                            m["event_at"] = 5
                        ex = {"path": path, "tie": 0, "hops": 0}
                        if t is not None:
                            ex["t"] = t
                        out.append({"v": 1, "timeout": 1.0, "est": est, "msgs": [m], "pushes": [{"t": 10, "kind": "notification", "text": "plain", "j": 0}],
                                    "chunk": {"n": 7} if mode == "202_then_event" else None, "death": None, "exit": ex, "keepalive": True})
    return out


def simplify(scn):
    if scn.get("bystander"):
        c = copy.deepcopy(scn); c["bystander"] = None; yield c
    if scn.get("session_id"):
        c = copy.deepcopy(scn); c["session_id"] = None; yield c
    if scn["exit"].get("early") is not None:
        c = copy.deepcopy(scn); del c["exit"]["early"]; yield c
    if scn["chunk"]:
        c = copy.deepcopy(scn); c["chunk"] = None; yield c
    if scn["death"]:
        c = copy.deepcopy(scn); c["death"] = None; yield c
    if scn["exit"]["path"] != "normal":
        c = copy.deepcopy(scn); c["exit"] = {"path": "normal", "tie": 0, "hops": 0}; yield c
    e = scn["est"]
    for key, val in (("latency", 0), ("announce_at", 0), ("pre_comment", False), ("greet", False), ("form", "event_endpoint")):
        if e.get(key) != val and e["kind"] == "ok":
            c = copy.deepcopy(scn); c["est"][key] = val; yield c
    for i, m in enumerate(scn["msgs"]):
        for key, val in (("gap", 0), ("hops", 0), ("tie", 0), ("push_after", False), ("text", "plain")):
            if m.get(key) != val:
                c = copy.deepcopy(scn); c["msgs"][i][key] = val; yield c
        if m["post_latency"] > 1 and m["mode"] not in ("event_then_202", "event_then_exc", "event_then_status"):
            c = copy.deepcopy(scn); c["msgs"][i]["post_latency"] = 1; yield c


def _sse_event(obj, dataonly=False, eol="\n"):
    data = json.dumps(obj, ensure_ascii=False)
    if dataonly:
        return f"data: {data}{eol}{eol}".encode()
    return f"event: message{eol}data: {data}{eol}{eol}".encode()


def _cut(data: bytes, chunk):
    if not chunk:
        return [data]
    if "n" in chunk:
        n = chunk["n"]
        return [data[i:i + n] for i in range(0, len(data), n)]
    sp = chunk["split"]
    idx = None
    if sp == "utf8":
        idx = next((i for i in range(1, len(data)) if (data[i] & 0xC0) == 0x80), None)
    elif sp == "crlf":
        i = data.find(b"\r\n")
        idx = i + 1 if i >= 0 else (data.find(b"\n") if data.find(b"\n") > 0 else None)
    elif sp == "data_prefix":
        i = data.find(b"data: ")
        idx = i + 3 if i >= 0 else None
    if idx is None or idx <= 0 or idx >= len(data):
        idx = len(data) // 2
    return [data[:idx], data[idx:]] if 0 < idx < len(data) else [data]


class BodyError(Exception):
    pass


def execute(scn: dict) -> dict:
    ssemod = importlib.import_module("chuk_mcp.transports.sse.sse_client")
    from chuk_mcp.transports.sse.parameters import SSEParameters
    from chuk_mcp.protocol.messages.json_rpc_message import JSONRPCRequest, JSONRPCNotification

    timeout = scn["timeout"]
    est = scn["est"]
    ex = scn["exit"]
    st = {"read": [], "entered": False, "enter_exc": None, "posts": [], "stream_log": [], "announced_at": None, "stream": None,
          "stream_dead_at": None, "sent": []}

    async def main(sim):
        loop = asyncio.get_running_loop()
        announce_path = "/messages/?session_id=abc123"

        def announcement_bytes():
            f = est["form"]
            if f == "event_endpoint":
                return b"event: endpoint\ndata: " + announce_path.encode() + b"\n\n"
            if f == "event_endpoint_crlf":
                return b"event: endpoint\r\ndata: " + announce_path.encode() + b"\r\n\r\n"
            if f == "data_only_messages":
                return b"data: " + announce_path.encode() + b"\n\n"
            if f == "data_only_mcp":
                return b"data: /mcp?session_id=abc123\n\n"
            if f == "query_params":
                return b"event: endpoint\ndata: session_id=abc123\n\n"
            return b"event: endpoint\ndata: " + (BASE + announce_path).encode() + b"\n\n"

        def push_bytes(data: bytes, what, meta=None):
            s = st["stream"]
            if s is None or s.closed or st["stream_dead_at"] is not None:
                sim.rec("server", "push-dropped:" + what, None)
                return False
            pieces = _cut(data, scn["chunk"])
            e = sim.rec("server", "push:" + what, len(pieces))
            st["stream_log"].append({"eseq": e, "t": sim.now(), "what": what, "meta": meta, "pieces": len(pieces)})
            if len(pieces) > 1:
                sim.probe("chunk_inside_event")
                if any(len(p) and (p[0] & 0xC0) == 0x80 for p in pieces[1:]):
                    sim.probe("chunk_inside_utf8")
            for p in pieces:
                s.push(p)
            return True

        def keepalive():
            s = st["stream"]
            if s is not None and not s.closed and st["stream_dead_at"] is None and scn.get("keepalive", True):
                s.push(b": keepalive\n\n")
                sim.at(sim.now() + timeout / 2, keepalive, tie=2)

        def on_get_stream(stream, rec):
            st["stream"] = stream
            st["t_stream_open"] = sim.now()
            if est["kind"] in ("ok", "slow_announce"):
                def announce():
                    if est.get("pre_comment"):
                        stream.push(b": welcome\n\n")
                    data = announcement_bytes()
                    gobj = None
                    if est.get("greet"):
                        # the server greets in the same write as the endpoint announcement
                        gobj = {"jsonrpc": "2.0", "method": "notifications/message", "params": {"data": "greeting", "j": -1}}
                        data += _sse_event(gobj)
                    if push_bytes(data, "endpoint"):
                        st["announced_at"] = sim.now()
                        st["announce_eseq"] = sim.eseq
                        if gobj is not None:
                            st["stream_log"].append({"eseq": sim.eseq, "t": sim.now(), "what": "push", "meta": gobj, "pieces": 0})
                            sim.probe("greeting_coalesced_with_endpoint")
                sim.at(sim.now() + ticks(est["announce_at"]), announce, tie=0)
                sim.at(sim.now() + timeout / 2, keepalive, tie=2)
                for p in scn["pushes"]:
                    if p["kind"] == "request_reusing_id":
                        # server-initiated request whose id happens to equal the id of one of the client's own (maybe failed, maybe answered) requests
                        cand = [m_.get("id") for m_ in scn["msgs"] if not m_["notif"]]
                        rid_ = cand[p.get("reuse", 0) % len(cand)] if cand else f"srv-{p['j']}"
                        obj = {"jsonrpc": "2.0", "id": rid_, "method": "ping", "params": {"j": p["j"], "reused": True}}
                    elif p["kind"] == "request":
                        obj = {"jsonrpc": "2.0", "id": f"srv-{p['j']}", "method": "roots/list", "params": {"j": p["j"]}}
                    else:
                        obj = {"jsonrpc": "2.0", "method": "notifications/message", "params": {"data": p["text"], "j": p["j"]}}
                    sim.at(sim.now() + ticks(est["announce_at"]) + ticks(p["t"]) + ticks(1), push_bytes,
                           _sse_event(obj, dataonly=p["kind"] == "dataonly_notification"), "push", obj, tie=0)
                if scn["death"]:
                    def die():
                        st["stream_dead_at"] = sim.now()
                        sim.rec("server", "stream-death:" + scn["death"]["how"], None)
                        sim.fault("event_stream_death")
                        if scn["death"]["how"] == "end":
                            stream.end()
                        else:
                            stream.fail(scn["death"]["how"])
                    sim.at(sim.now() + ticks(est["announce_at"]) + ticks(scn["death"]["t"]) + ticks(2), die, tie=2)
            elif est["kind"] == "never_announce":
                stream.push(b": hello\n\n")
                sim.at(sim.now() + timeout / 2, keepalive, tie=2)
            elif est["kind"] == "ends_after_comment":
                stream.push(b": bye\n\n")
                stream.end()
            elif est["kind"] == "empty_stream":
                stream.end()

        def server(rec):
            if rec["url"].startswith(BASE2):
                # the other, unrelated connection of this process: announces its endpoint, acknowledges every POST, never answers
                if rec["method"] == "GET":
                    def on_other(stream, rec_):
                        st["other_stream"] = stream
                        stream.push(b"event: endpoint\ndata: /messages/?session_id=other\n\n")

                        def ka():
                            if not stream.closed:
                                stream.push(b": ka\n\n")
                                sim.at(sim.now() + timeout / 2, ka, tie=2)
                        sim.at(sim.now() + timeout / 2, ka, tie=2)
                    return {"status": 200, "headers": {"content-type": "text/event-stream"}, "chunks": [], "stay_open": True, "on_stream": on_other}
                return {"latency": ticks(1), "status": 202, "chunks": [(0, b"Accepted")]}
            if rec["method"] == "GET":
                k = est["kind"]
                if k == "connect_error":
                    return {"latency": ticks(est["latency"]), "exc": "ConnectError"}
                if k == "connect_timeout":
                    return {"exc": "ConnectTimeout"}
                if k == "status":
                    return {"latency": ticks(est["latency"]), "status": est["status"], "headers": {"content-type": "text/plain"}, "chunks": [(0, b"nope")]}
                return {"latency": ticks(est["latency"]), "status": 200, "headers": {"content-type": "text/event-stream"}, "chunks": [],
                        "stay_open": k not in ("empty_stream",), "on_stream": on_get_stream}
            # POST
            try:
                posted = json.loads(rec["body"])
            except Exception:
                posted = None
            k = (posted.get("params") or {}).get("k") if isinstance(posted, dict) else None
            m = scn["msgs"][k] if isinstance(k, int) and k < len(scn["msgs"]) else None
            prec = {"k": k, "posted": posted, "t": sim.now(), "url": rec["url"], "eseq": rec["eseq"]}
            st["posts"].append(prec)
            if m is None:
                return {"status": 500, "chunks": [(0, b"unknown")]}
            rid = posted.get("id")
            mode = m["mode"]
            lat = ticks(m["post_latency"])
            resp_obj = {"jsonrpc": "2.0", "id": rid, "result": {"k": k, "text": m["text"]}}
            prec["resp_obj"] = resp_obj

            def push_response(dataonly=False):
                ok = push_bytes(_sse_event(resp_obj, dataonly=dataonly), "response", {"k": k})
                prec["event_pushed"] = ok
                prec["event_t"] = sim.now()
                if ok and m.get("push_after"):
                    obj = {"jsonrpc": "2.0", "method": "notifications/message", "params": {"data": "after", "after_k": k}}
                    if push_bytes(_sse_event(obj), "push", obj):
                        sim.probe("push_right_after_response_event")

            if m["notif"]:
                if mode == "exc":
                    return {"latency": lat, "exc": m["exc"]}
                if mode == "other_status_plain":
                    return {"latency": lat, "status": m["status"], "chunks": [(0, b"nope")]}
                return {"latency": lat, "status": 202, "chunks": [(0, b"")]}
            if mode == "200_body":
                return {"latency": lat, "status": 200, "headers": {"content-type": "application/json"}, "chunks": [(0, json.dumps(resp_obj).encode())]}
            if mode == "200_badjson":
                return {"latency": lat, "status": 200, "headers": {"content-type": "application/json"}, "chunks": [(0, b"<html>")]}
            if mode in ("202_then_event", "202_then_event_dataonly", "event_then_202"):
                sim.at(sim.now() + ticks(m["event_at"]), push_response, mode == "202_then_event_dataonly", tie=m["tie"], hops=m["hops"])
                return {"latency": lat, "status": 202, "chunks": [(0, b"Accepted")]}
            if mode in ("event_then_exc", "event_then_status"):
                # the server answers on the event stream, but the POST's own acknowledgement is lost / fails
                sim.at(sim.now() + ticks(m["event_at"]), push_response, False, tie=m["tie"], hops=m["hops"])
                if mode == "event_then_exc":
                    return {"latency": lat, "exc": m["exc"]}
                return {"latency": lat, "status": m["status"] if m["status"] not in (201, 204) else 500, "headers": {"content-type": "text/plain"}, "chunks": [(0, b"oops")]}
            if mode == "202_silence":
                return {"latency": lat, "status": 202, "chunks": [(0, b"")]}
            if mode == "other_status_json":
                err = {"jsonrpc": "2.0", "id": rid, "error": {"code": -32002, "message": f"status {m['status']}"}}
                prec["resp_obj"] = err
                body = json.dumps(err).encode() if m["status"] != 204 else b""
                return {"latency": lat, "status": m["status"], "headers": {"content-type": "application/json"}, "chunks": [(0, body)]}
            if mode == "other_status_plain":
                return {"latency": lat, "status": m["status"], "headers": {"content-type": "text/plain"}, "chunks": [(0, b"Internal Server Error")]}
            return {"latency": lat, "exc": m["exc"]}

        transport = SimHTTPTransport(sim, server)
        st["transport"] = transport
        Client = make_client_class(lambda: transport)
        st["Client"] = Client
        scope_box = {}

        def fire_exit():
            if st.get("t_left") is not None:
                return
            st["t_trigger"] = sim.now()
            sim.rec("env", "cancel:" + ex["path"], None)
            if st["entered"] and any(s.get("t_sent") is not None and s.get("t_term") is None for s in st["sent"]):
                sim.probe("cancel_while_waiting_for_event")
            if ex["path"] == "task_cancel":
                body_task.cancel()
            else:
                scope_box["scope"].cancel()

        async def inside(read_stream, write_stream):
            st["entered"] = True
            st["t_entered"] = sim.now()
            st["entered_eseq"] = sim.rec("client", "entered", None)
            st["streams"] = (read_stream, write_stream)

            async def drain():
                async for msg in read_stream:
                    st["read"].append((sim.rec("client", "got", None), sim.now(), msg))

            async def bystander(by):
                # a second SSE connection in the same process, opened and closed while the first one is in use
                await anyio.sleep(ticks(by["enter_at"]))
                try:
                    async with ssemod.sse_client(SSEParameters(url=BASE2, timeout=timeout)) as (r2, w2):
                        if by.get("same_id_as") is not None and by["same_id_as"] < len(scn["msgs"]) and not scn["msgs"][by["same_id_as"]]["notif"]:
                            await w2.send(JSONRPCRequest.model_validate({"jsonrpc": "2.0", "id": scn["msgs"][by["same_id_as"]]["id"], "method": "other/thing"}))
                        await anyio.sleep(ticks(by["stay"]))
                    sim.probe("second_connection_opened_and_closed_meanwhile")
                except Exception as e_:  # noqa
                    sim.rec("bystander", "failed", type(e_).__name__)

            async with anyio.create_task_group() as tg:
                tg.start_soon(drain, name="drain-read")
                if scn.get("bystander"):
                    tg.start_soon(bystander, scn["bystander"], name="bystander")
                for k, m in enumerate(scn["msgs"]):
                    if m["gap"]:
                        await anyio.sleep(ticks(m["gap"]))
                    d = {"jsonrpc": "2.0", "method": "notifications/progress" if m["notif"] else "tools/call", "params": {"k": k}}
                    if not m["notif"]:
                        d["id"] = m["id"]
                    obj = (JSONRPCNotification if m["notif"] else JSONRPCRequest).model_validate(d)
                    st["sent"].append({"k": k, "t_sent": sim.now()})
                    await write_stream.send(obj)
                if ex.get("early") is not None:
                    # the body does not wait for its answers: it leaves `early` ticks after handing over the last message
                    await anyio.sleep(ticks(ex["early"]))
                    st["t_body_end"] = sim.now()
                    sim.probe("body_left_with_request_in_flight")
                else:
                    # every request may take up to `timeout` (serial sender)
                    await anyio.sleep(len(scn["msgs"]) * (timeout + 0.5) + 1.0)
                tg.cancel_scope.cancel()
            if ex["path"] == "exception":
                raise BodyError("body failed")

        async def body():
            try:
                params = SSEParameters(url=BASE, timeout=timeout, session_id=scn.get("session_id"))
                if scn.get("session_id"):
                    sim.probe("session_id_supplied_by_caller")
                st["t_enter_start"] = sim.now()
                if ex["path"] == "cancel_scope":
                    with anyio.CancelScope() as scope:
                        scope_box["scope"] = scope
                        async with ssemod.sse_client(params) as (r, w):
                            await inside(r, w)
                else:
                    async with ssemod.sse_client(params) as (r, w):
                        await inside(r, w)
                st["ctx_outcome"] = "returned"
            except BaseException as e:  # noqa
                st["ctx_outcome"] = "raised:" + type(e).__name__
                if not st["entered"]:
                    st["enter_exc"] = e
                    st["t_enter_failed"] = sim.now()
            finally:
                st["t_left"] = sim.now()
                sim.rec("body", "context-left", st.get("ctx_outcome"))
                # census at the very instant the context has been left (not after things had time to die down by themselves)
                me = asyncio.current_task()
                # (the interpreter's own one-iteration finaliser for an abandoned async generator - a task around agen.aclose() - is not a library task)
                st["tasks_at_left"] = sorted(t.get_name() + ":" + getattr(t.get_coro(), "__qualname__", "?") for t in asyncio.all_tasks()
                                             if not t.done() and t is not me and t is not main_task and type(t.get_coro()).__name__ == "coroutine")
                st["posts_in_flight_at_left"] = [r["i"] for r in transport.requests if r["method"] == "POST" and not r.get("returned")]

        main_task = asyncio.current_task()
        with patched((httpx, "AsyncClient", Client)):
            body_task = loop.create_task(body(), name="body")
            if "t" in ex:
                sim.at(ticks(ex["t"]), fire_exit, tie=ex["tie"], hops=ex["hops"])
            await asyncio.wait({body_task})
            await anyio.sleep(timeout + 3.0)  # quiescence
            st["tasks_left"] = sorted(t.get_name() + ":" + getattr(t.get_coro(), "__qualname__", "?") for t in asyncio.all_tasks()
                                      if not t.done() and t is not asyncio.current_task())
            st["clients_open"] = [i for i, c in enumerate(Client.instances) if not c.is_closed]
            if "streams" in st:
                r, w = st["streams"]
                try:
                    w.send_nowait(None)
                    st["write_open"] = True
                except (anyio.ClosedResourceError, anyio.BrokenResourceError):
                    st["write_open"] = False
                except anyio.WouldBlock:
                    st["write_open"] = True
                st["read_senders_open"] = r.statistics().open_send_streams

    info = run_sim(main, max_steps=600_000, max_vtime=3000.0)
    sim = info.sim
    out = {"violations": [], "digest": sim.digest(), "isig": sim.isig(), "faults": dict(sim.faults),
           "probes": dict(sim.probes), "vtime": info.vtime, "steps": info.steps, "harness": list(sim.harness_errors),
           "nontrivial": False, "history": None}
    if info.limit or info.exc is not None:
        out["harness"].append(f"run did not complete: deadlock={info.deadlock} limit={info.limit} exc={info.exc!r}")
        return out

    def V(cls, sig, msg):
        out["violations"].append({"cls": f"C12/{cls}", "sig": f"C12/{cls}:{sig}", "msg": msg})

    def probe(k):
        out["probes"][k] = out["probes"].get(k, 0) + 1

    if info.deadlock or "t_left" not in st:
        V("hang", ex["path"] + ":" + est["kind"], "the client context never finished (deadlock)")
        return out
    kind = est["kind"]
    tl = timeout
    # ---- 1. establishment: live-or-raise -------------------------------------------------
    t0 = st["t_enter_start"]
    cancelled_during_enter = st.get("t_trigger") is not None and (not st["entered"] or st["t_trigger"] <= st.get("t_entered", 1e9)) and \
        (st["enter_exc"] is None or isinstance(st["enter_exc"], (asyncio.CancelledError,)) or "Cancel" in type(st["enter_exc"]).__name__)
    announced = st["announced_at"]
    if st["entered"]:
        ann_before_entry = announced is not None and st.get("announce_eseq", 10 ** 9) < st["entered_eseq"]
        if not ann_before_entry:
            V("dead-connection", kind, f"the context was entered at t={st['t_entered']} although the server never announced its message endpoint "
                                       f"(establishment: {kind}{' status ' + str(est['status']) if kind == 'status' else ''})")
        if st["t_entered"] - t0 > tl:
            V("enter-late", kind, f"entering took {st['t_entered'] - t0}s > timeout {tl}")
    elif not cancelled_during_enter:
        e = st["enter_exc"]
        t_fail = st["t_enter_failed"] - t0
        if t_fail > tl + ticks(est["latency"]) + ticks(2):
            V("enter-raise-late", kind, f"entering raised {type(e).__name__} after {t_fail}s, timeout is {tl}s")
        # if the announcement arrived strictly before the timeout, entering must succeed
        if announced is not None and (announced - t0) < tl and kind in ("ok", "slow_announce"):
            V("enter-failed", kind, f"the endpoint was announced at +{announced - t0}s (< timeout {tl}s) but entering raised {type(e).__name__}: {e}")
    if kind == "status":
        probe("establish_failed_status")
    if kind in ("never_announce", "empty_stream", "ends_after_comment"):
        probe("establish_no_announcement")
    if kind == "slow_announce":
        probe("announce_at_timeout_edge")
    nontrivial = kind != "ok" or est["latency"] > 1 or est["announce_at"] > 1 or ex["path"] != "normal"

    # ---- 2./3. per-request terminals and stream order -----------------------------------------
    got = []
    for (_e, t, m) in st["read"]:
        if hasattr(m, "model_dump"):
            d = m.model_dump()
            got.append((t, {k: v for k, v in d.items() if v is not None}))
        else:
            got.append((t, {"<non-message>": repr(m)[:80]}))
    posts = {p["k"]: p for p in st["posts"] if p["k"] is not None}
    t_end = st.get("t_trigger") if st.get("t_trigger") is not None else st.get("t_body_end", st["t_left"])
    interrupted = st.get("t_trigger") is not None or ex["path"] == "exception" or st.get("t_body_end") is not None
    accounted = set()
    live = st["entered"] and announced is not None and st.get("announce_eseq", 10 ** 9) < st["entered_eseq"]
    if live:
        for k, m in enumerate(scn["msgs"]):
            if m["notif"]:
                continue
            rid = m["id"]
            if isinstance(rid, int):
                probe("int_request_id")
            if not rid:
                probe("falsy_request_id")
            p = posts.get(k)
            mine = [(i, t, g) for i, (t, g) in enumerate(got) if "method" not in g and "id" in g and str(g["id"]) == str(rid)]
            for (i, _t, _g) in mine:
                accounted.add(i)
            if p is None:
                # never POSTed: only acceptable if the run was cut short before its turn
                if not interrupted and len(mine) == 0:
                    V("request-lost", "never-posted", f"request #{k} id={rid!r} was accepted by the write stream but never POSTed")
                continue
            mode = m["mode"]
            if mode in ("202_then_event", "202_then_event_dataonly", "event_then_202", "202_silence"):
                nontrivial = True
            # when must the terminal have appeared at the latest?
            t_post = p["t"]
            due = t_post + ticks(m["post_latency"]) + ticks(2)
            if mode in ("202_then_event", "202_then_event_dataonly", "event_then_202", "202_silence"):
                due = t_post + ticks(m["post_latency"]) + tl + ticks(2)
            if mode == "exc" and m["exc"] in ("ReadTimeout", "ConnectTimeout"):
                due = t_post + tl + ticks(2)  # the fake raises timeouts at the configured instant
            cut_short = interrupted and t_end <= due
            late_answer = (mode in ("202_then_event", "202_then_event_dataonly", "event_then_202") and p.get("event_pushed")
                           and (p["event_t"] - (t_post + ticks(m["post_latency"]))) >= tl)
            if mode in ("event_then_exc", "event_then_status") and p.get("event_pushed") and p["event_t"] >= t_post + ticks(m["post_latency"]):
                late_answer = True  # the POST had already failed when the server answered on the stream anyway: outside the sentence
            if len(mine) == 2 and late_answer and "error" in mine[0][2] and mine[1][2] == p.get("resp_obj"):
                probe("server_answered_after_synthesised_timeout")  # the sentence lists "never", not "too late": accepted
            elif len(mine) > 1:
                V("terminal-duplicated", mode, f"request #{k} id={rid!r} ({mode}) produced {len(mine)} terminal messages: {[g for (_i, _t, g) in mine]!r:.300}")
            elif len(mine) == 0:
                if not cut_short:
                    V("no-terminal", mode, f"request #{k} id={rid!r} ({mode}) produced no terminal message (posted at {t_post}, due by {due}, run ended {t_end})")
            else:
                g = mine[0][2]
                if type(g["id"]) is not type(rid):
                    V("terminal-id-type", mode, f"request #{k} id={rid!r} ({type(rid).__name__}) got a terminal message with id {g['id']!r} ({type(g['id']).__name__})")
                if ("result" in g) == ("error" in g):
                    V("terminal-shape", mode, f"terminal message has result and error both or neither: {g!r:.200}")
                # content: when the server did answer in time, the answer must be the server's
                exp = p.get("resp_obj")
                srv_answered = None
                if mode == "200_body":
                    srv_answered = exp
                elif mode == "other_status_json" and m["status"] != 204:
                    srv_answered = exp
                elif mode in ("202_then_event", "202_then_event_dataonly", "event_then_202") and p.get("event_pushed"):
                    dt = p["event_t"] - (t_post + ticks(m["post_latency"]))
                    if dt < tl:
                        srv_answered = exp
                        probe("event_before_202" if p["event_t"] < t_post + ticks(m["post_latency"]) else "event_after_202")
                    elif dt == tl:
                        srv_answered = "either"
                if mode == "202_silence":
                    probe("silence_timeout")
                if mode in ("exc", "other_status_plain", "200_badjson"):
                    probe("post_failed")
                if mode in ("event_then_exc", "event_then_status") and p.get("event_pushed") and p["event_t"] < t_post + ticks(m["post_latency"]):
                    probe("event_then_post_failed")
                if srv_answered not in (None, "either") and g != srv_answered:
                    cause = "synthesised-instead-of-server-answer" if "error" in g and "result" in (srv_answered or {}) else "content-differs"
                    V("terminal-content", f"{mode}:{cause}", f"request #{k} ({mode}): terminal {g!r:.200}, the server answered {srv_answered!r:.200}")
        # stream-originated messages: once, in order
        stream_msgs = [e for e in st["stream_log"] if e["what"] == "push"]
        exp_push = [e["meta"] for e in stream_msgs]
        got_push = []
        for i, (t, g) in enumerate(got):
            if "method" in g:
                got_push.append((i, t, g))
                accounted.add(i)
        gp = [g for (_i, _t, g) in got_push]
        # pushes after the cut / after stream death may be missing; but what is delivered must be a once-only in-order subsequence
        j = 0
        for g in gp:
            while j < len(exp_push) and exp_push[j] != g:
                j += 1
            if j >= len(exp_push):
                cause = "duplicated" if gp.count(g) > exp_push.count(g) else ("out-of-order" if g in exp_push else "invented")
                V("stream-order", cause, f"server messages on the event stream were delivered as {gp!r:.300}; the server pushed {exp_push!r:.300}")
                break
            j += 1
        else:
            if not interrupted and st["stream_dead_at"] is None and len(gp) != len(exp_push):
                pushed_before_end = [e for e in stream_msgs if e["t"] < st["t_left"] - ticks(4)]
                if len(gp) < len(pushed_before_end):
                    V("stream-order", "lost", f"{len(pushed_before_end)} server messages were pushed before the context was left, {len(gp)} delivered")
        if gp:
            probe("server_push_delivered")
        # order between a response event and a notification pushed right behind it on the same stream
        for e in stream_msgs:
            ak = (e["meta"].get("params") or {}).get("after_k")
            if ak is None:
                continue
            rid = scn["msgs"][ak].get("id")
            pi = next((i for (i, _t, g) in got_push if g == e["meta"]), None)
            ri = next((i for i, (_t, g) in enumerate(got) if "method" not in g and str(g.get("id")) == str(rid) and "result" in g), None)
            if pi is not None and ri is not None and pi < ri:
                V("stream-order", "notification-overtook-response", f"on the event stream the response to request #{ak} was written before the notification "
                                                                    f"{e['meta']!r:.120}, but the read stream delivered the notification first")
        extra = [g for i, (_t, g) in enumerate(got) if i not in accounted]
        if extra:
            V("invented", "unaccounted-message", f"messages on the read stream that nothing accounts for: {extra[:3]!r:.300}")
    # ---- 4. resources released ---------------------------------------------------------------------
    if st.get("tasks_at_left"):
        V("leak", "task-at-exit:" + ex["path"], f"tasks still running at the instant the context was left ({ex['path']}, establishment {kind}, "
                                                f"event stream {'dead' if st['stream_dead_at'] is not None else 'open'}): {st['tasks_at_left']}")
    if st.get("posts_in_flight_at_left"):
        V("leak", "post-in-flight-at-exit:" + ex["path"], f"POST request(s) {st['posts_in_flight_at_left']} still being awaited when the context was left")
    if st.get("tasks_left"):
        V("leak", "task:" + ex["path"], f"tasks still alive after the context was left ({ex['path']}, establishment {kind}): {st['tasks_left']}")
    if st.get("clients_open"):
        V("leak", "httpx-client:" + ex["path"], f"{len(st['clients_open'])} httpx client(s) not closed after the context was left ({ex['path']}, establishment {kind})")
    if st["stream"] is not None and not st["stream"].closed:
        V("leak", "event-stream:" + ex["path"], f"the GET /sse response stream was never closed ({ex['path']}, establishment {kind})")
    if st.get("write_open"):
        V("leak", "write-stream:" + ex["path"], "the write stream is still open after the context was left")
    if st.get("read_senders_open"):
        V("leak", "read-stream:" + ex["path"], "the read stream's sending side is still open after the context was left")
    if st.get("t_trigger") is not None:
        probe({"cancel_scope": "exit_cancel_scope", "task_cancel": "exit_task_cancel"}[ex["path"]])
    if ex["path"] == "exception" and st["entered"]:
        probe("exit_exception")
        if st.get("ctx_outcome") != "raised:BodyError":
            V("exit", "exception-swallowed", f"the body raised BodyError, the context ended with {st.get('ctx_outcome')}")
    if st["stream_dead_at"] is not None:
        probe("stream_died")
    if scn["chunk"]:
        out["faults"]["chunked_event_stream"] = 1
    out["faults"]["establish:" + kind] = 1
    out["faults"]["exit:" + ex["path"]] = 1
    for m in scn["msgs"]:
        out["faults"]["mode:" + m["mode"]] = out["faults"].get("mode:" + m["mode"], 0) + 1
    out["nontrivial"] = bool(nontrivial or out["probes"].get("chunk_inside_event"))
    out["history"] = {"establish": est, "entered": st["entered"], "enter_exc": repr(st["enter_exc"])[:100] if st["enter_exc"] else None,
                      "t_entered": st.get("t_entered"), "announced_at": announced, "ctx_outcome": st.get("ctx_outcome"), "exit": ex,
                      "posts": [(p["k"], p["t"]) for p in st["posts"]][:6], "read": [(t, g) for (t, g) in got][:10],
                      "stream_log": [(e["t"], e["what"]) for e in st["stream_log"]][:12], "tasks_left": st.get("tasks_left")}
    return out
