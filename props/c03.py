"""C03 - client initialization never settles on a protocol version it did not offer.

SUT: send_initialize / send_initialize_with_client_tracking (tracking a real StdioClient object)
on real anyio streams.  Environment: an answering peer (proposed / other supported / unsupported /
malformed / JSON-RPC error / silence), answer latency around the timeout, distractors before the
answer, a duplicate second answer.  Oracle: history ordering + absence of `initialized`.
"""
from __future__ import annotations

import copy
import importlib
import random
import re
import uuid as _uuid

import asyncio

import anyio

from sim.loop import run_sim, ticks, TICK
from sim.streams import RecSend, RecRecv, FakeUUID, patched, build_inbound, dump

ID = "C03"
LEVEL = "exploration"
RULE = ("scenario = (supported list, preferred, api) x server answer kind x answer instant around the timeout x 0..3 distractors "
        "x optional duplicate answer; non-trivial = the answer was not simply 'proposed version, immediately' (mismatch, counter-proposal, "
        "malformed, error, silence, boundary timing, distractor or duplicate)")
PROBES = ["error_answer_carrying_a_result", "mcpclient_initialize_after_cancelled_handshake", "write_channel_broken_after_request", "concurrent_second_handshake", "write_stream_backpressure", "reconnect_same_client", "through_real_stdio_client", "answer_exactly_at_timeout", "counter_proposal_accepted", "mismatch_rejected", "malformed_answer", "error_answer",
          "silence", "duplicate_answer", "preferred_not_in_list", "invented_version_accepted"]
TIERS = {"quick": {"runs": 30000, "wall": 45.0}, "thorough": {"runs": 3000000, "wall": 560.0}}
ASSUMPTIONS = [
    "JSON-RPC error answers and malformed results may raise any exception; a well-formed answer with a version outside the list must raise VersionMismatchError; silence must raise TimeoutError",
    "batching mode is checked against an independent date compare only for well-formed dddd-dd-dd versions",
]

REAL = ["2025-06-18", "2025-03-26", "2024-11-05"]
INVENTED = ["2026-01-01", "2025-06-17", "2025-06-19", "1999-12-31", "2025-07-01", "2030-12-31", "2025-06-18 ", "2025-6-18", "v1", "latest", "2025-03-26x"]
TIMEOUTS = [0.375, 1.0, 5.0]
WELL = re.compile(r"^\d{4}-\d{2}-\d{2}$")


def generate(rng: random.Random, tier: str) -> dict:
    universe = REAL + INVENTED
    k = rng.choice([1, 1, 2, 2, 3, 4])
    supported = rng.sample(universe, k) if rng.random() < 0.5 else rng.sample(REAL, min(k, 3))
    r = rng.random()
    if r < 0.3:
        preferred = None
    elif r < 0.6:
        preferred = rng.choice(supported)
    elif r < 0.9:
        preferred = rng.choice([v for v in universe if v not in supported] or ["zzz"])
    else:
        preferred = ""
    timeout = rng.choice(TIMEOUTS)
    dl = int(timeout / TICK)
    kind = rng.choice(["proposed", "proposed", "other_supported", "unsupported", "unsupported", "wellformed_unknown", "missing_version",
                       "nonstring_version", "null_version", "missing_serverinfo", "bad_caps", "error", "error", "silence", "result_not_object", "error_with_result"])
    r = rng.random()
    if r < 0.35:
        at = dl + rng.choice([-10, -1, 0, 1, 10])
    elif r < 0.5:
        at = rng.choice([0, 1])
    else:
        at = rng.randrange(0, dl + 5)
    ans = {"kind": kind, "t": max(0, at), "tie": rng.choice([0, 2]), "hops": rng.choice([0, 0, 1, 3])}
    if kind == "other_supported":
        ans["pick"] = rng.randrange(0, 8)
    if kind == "unsupported":
        ans["version"] = rng.choice([v for v in universe if v not in supported] or ["1900-01-01"])
    if kind == "wellformed_unknown":
        ans["version"] = f"{rng.randrange(1990, 2100):04d}-{rng.randrange(1, 13):02d}-{rng.randrange(1, 29):02d}"
    if kind == "nonstring_version":
        ans["version"] = rng.choice([20250618, 1.5, True, ["2025-06-18"], {"v": "2025-06-18"}])
    if kind == "error_with_result":
        ans["code"] = rng.choice([-32602, -32603, -32000, 401, 1])
        ans["text"] = rng.choice(["boom", "not allowed", ""])
    if kind == "error":
        ans["code"] = rng.choice([-32602, -32602, -32600, -32601, -32603, -32000, -32001, 401, 0, 1])
        ans["text"] = rng.choice(["Unsupported protocol version", "unsupported PROTOCOL VERSION: x", "invalid params", "boom", ""])
    events = []
    for j in range(rng.choice([0, 0, 1, 2, 3])):
        events.append({"t": rng.randrange(0, max(1, ans["t"] + 2)), "tie": rng.choice([0, 2]), "hops": 0,
                       "kind": rng.choice(["notification", "foreign_response", "foreign_init_result", "server_request"]), "m": f"d{j}"})
    dup = None
    if rng.random() < 0.25 and kind != "silence":
        dup = {"dt": rng.choice([0, 0, 1, 5, 100]), "kind": rng.choice(["proposed", "unsupported", "other_supported"]), "pick": rng.randrange(0, 8)}
    scn = _gen_tail(rng, supported, preferred, timeout, ans, events, dup)
    if scn["concurrent"] and ans["kind"] in ("unsupported", "wellformed_unknown") and isinstance(ans.get("version"), str) and rng.random() < 0.8:
        scn["concurrent"]["supported"] = [ans["version"]]
    return scn


def _gen_tail(rng, supported, preferred, timeout, ans, events, dup):
    return {"v": 1, "api": rng.choice(["send_initialize", "tracking", "tracking", "stdio"]), "supported": supported, "preferred": preferred,
            "timeout": timeout, "uuid_seed": rng.getrandbits(40), "mode": rng.choice(["parse_message", "model_validate"]),
            "pre_version": rng.choice([None, None, "2025-06-18", "2024-11-05"]),
            "mcpclient": ({"first": "cancelled", "cancel_after": rng.choice([1, 10, 300]), "second": rng.choice(["initialize", "initialize", "list_tools"]),
                           "answer_version": rng.choice(["proposed", "proposed", "2025-03-26", "1999-01-01"]), "answer_delay": rng.choice([0, 2, 50])}
                          if rng.random() < 0.04 else None),
            "break_write_after_request": rng.random() < 0.06,
            "concurrent": ({"start": rng.choice([0, 1, 5]), "supported": [rng.choice(REAL + INVENTED[:6])], "answer_dt": rng.choice([1, 30, 400])}
                           if rng.random() < 0.12 else None),
            "reconnect": ({"versions": [rng.choice(REAL) for _ in range(rng.choice([2, 2, 3]))]} if rng.random() < 0.05 else None),
            "slow_reader": ({"wbuf": rng.choice([0, 0, 1]), "delays": [rng.choice([0, 0, 3]), rng.choice([0, 10, 450, 1300])]} if rng.random() < 0.15 else None),
            "answer": ans, "dup": dup, "events": events}


def systematic(tier: str):
    """Every answer kind x answer instant {at once, mid-way, timeout-1, timeout, timeout+1} x entry point, fixed supported list."""
    out = []
    timeout = 1.0
    dl = int(timeout / TICK)
    kinds = ["proposed", "other_supported", "unsupported", "wellformed_unknown", "missing_version", "nonstring_version", "null_version",
             "missing_serverinfo", "bad_caps", "error", "silence", "result_not_object", "error_with_result"]
    for kind in kinds:
        for at in (0, 1, dl // 2, dl - 1, dl, dl + 1):
            for api in ("send_initialize", "tracking", "stdio"):
                for tie in ((0, 2) if at == dl else (0,)):
                    ans = {"kind": kind, "t": at, "tie": tie, "hops": 0}
                    if kind == "other_supported":
                        ans["pick"] = 1
                    if kind == "unsupported":
                        ans["version"] = "1999-01-01"
                    if kind == "wellformed_unknown":
                        ans["version"] = "2031-02-03"
                    if kind == "nonstring_version":
                        ans["version"] = 20250618
                    if kind == "error_with_result":
                        ans["code"], ans["text"] = -32603, "boom"
                    if kind == "error":
                        ans["code"], ans["text"] = -32602, "Unsupported protocol version"
                    out.append({"v": 1, "api": api, "supported": ["2025-06-18", "2025-03-26", "2024-11-05"], "preferred": None, "timeout": timeout,
                                "uuid_seed": 777, "mode": "model_validate", "pre_version": None, "mcpclient": None, "break_write_after_request": False,
                                "concurrent": None, "reconnect": None, "slow_reader": None, "answer": ans, "dup": None, "events": []})
    return out


def simplify(scn):
    if scn.get("slow_reader"):
        c = copy.deepcopy(scn); c["slow_reader"] = None; yield c
    if scn.get("reconnect"):
        c = copy.deepcopy(scn); c["reconnect"] = None; yield c
    if scn.get("mcpclient"):
        c = copy.deepcopy(scn); c["mcpclient"] = None; yield c
    if scn.get("concurrent"):
        c = copy.deepcopy(scn); c["concurrent"] = None; yield c
    if scn.get("break_write_after_request"):
        c = copy.deepcopy(scn); c["break_write_after_request"] = False; yield c
    if scn["dup"]:
        c = copy.deepcopy(scn); c["dup"] = None; yield c
    if scn["preferred"] is not None:
        c = copy.deepcopy(scn); c["preferred"] = None; yield c
    if len(scn["supported"]) > 1:
        for i in range(len(scn["supported"])):
            c = copy.deepcopy(scn); c["supported"].pop(i); yield c
    if scn["answer"]["hops"]:
        c = copy.deepcopy(scn); c["answer"]["hops"] = 0; yield c
    if scn["answer"]["tie"]:
        c = copy.deepcopy(scn); c["answer"]["tie"] = 0; yield c
    if scn["answer"]["t"] > 1:
        c = copy.deepcopy(scn); c["answer"]["t"] = 1; yield c
    if scn["pre_version"]:
        c = copy.deepcopy(scn); c["pre_version"] = None; yield c
    if scn["api"] != "send_initialize":
        c = copy.deepcopy(scn); c["api"] = "send_initialize"; yield c


def _date_lt_cutoff(v: str) -> bool:
    y, m, d = (int(x) for x in v.split("-"))
    return (y, m, d) < (2025, 6, 18)


def execute(scn: dict) -> dict:
    if scn.get("mcpclient"):
        return _execute_mcpclient(scn)
    if scn.get("reconnect"):
        return _execute_reconnect(scn)
    if scn["api"] == "stdio":
        return _execute_stdio(scn)
    return _execute_raw(scn)


def _execute_mcpclient(scn: dict) -> dict:
    """MCPClient.initialize(): a first handshake cancelled from outside while it awaits the answer, then a second call.
    A later call may only report success after a real handshake (request written, acceptable answer, initialized sent)."""
    from chuk_mcp.client.client import MCPClient
    from chuk_mcp.transports.base import Transport
    from chuk_mcp.protocol.types.versioning import SUPPORTED_VERSIONS

    fu = FakeUUID(scn["uuid_seed"])
    mc = scn["mcpclient"]
    st = {"versions_set": []}

    async def main(sim):
        to_client_send, to_client_recv = anyio.create_memory_object_stream(100)
        from_client_send, from_client_recv = anyio.create_memory_object_stream(100)
        ws = RecSend(sim, from_client_send)
        st["ws"] = ws

        class FakeTransport(Transport):
            def __init__(self):
                super().__init__(None)

            async def get_streams(self):
                return to_client_recv, ws

            async def __aenter__(self):
                return self

            async def __aexit__(self, *a):
                return False

            def set_protocol_version(self, version):
                st["versions_set"].append(version)

        async def server():
            n = 0
            async for item in from_client_recv:
                d = dump(item)
                if d.get("method") != "initialize":
                    continue
                n += 1
                if n == 1 and mc["first"] == "cancelled":
                    continue  # never answered in time: the caller gives up (cancellation from outside)
                ver = mc["answer_version"] if mc["answer_version"] != "proposed" else d["params"]["protocolVersion"]
                await anyio.sleep(ticks(mc["answer_delay"]))
                to_client_send.send_nowait(build_inbound("parse_message", {"jsonrpc": "2.0", "id": d["id"], "result": {
                    "protocolVersion": ver, "capabilities": {}, "serverInfo": {"name": "sim", "version": "1"}}}))
        asyncio.get_running_loop().create_task(server(), name="server")
        client = MCPClient(FakeTransport())
        if mc["first"] == "cancelled":
            with anyio.move_on_after(ticks(mc["cancel_after"])):
                await client.initialize()
            st["after_first"] = {"initialized": client.initialized, "writes": len(ws.items)}
        st["n_before"] = len(ws.items)
        try:
            res = await client.initialize() if mc["second"] == "initialize" else await client.list_tools()
            st["outcome"] = ("return", res)
        except BaseException as e:  # noqa
            st["outcome"] = ("raise", e)
        st["client"] = client
        await anyio.sleep(1.0)

    with patched((_uuid, "uuid4", fu)):
        info = run_sim(main, max_steps=100_000, max_vtime=500.0)
    sim = info.sim
    out = {"violations": [], "digest": sim.digest(), "isig": sim.isig() + ":mcpclient:" + repr(sorted(mc.items())), "faults": dict(sim.faults),
           "probes": dict(sim.probes), "vtime": info.vtime, "steps": info.steps, "harness": list(sim.harness_errors),
           "nontrivial": True, "history": None}
    if info.deadlock or info.limit or info.exc is not None or "outcome" not in st:
        out["harness"].append(f"run did not complete: deadlock={info.deadlock} limit={info.limit} exc={info.exc!r}")
        return out
    out["probes"]["mcpclient_initialize_after_cancelled_handshake"] = 1
    writes = [dump(it) for (_e, _t, _tn, it) in st["ws"].items]
    new = writes[st["n_before"]:]
    kind, val = st["outcome"]
    ans_ok = mc["answer_version"] == "proposed" or mc["answer_version"] in SUPPORTED_VERSIONS
    handshake_done = any(w.get("method") == "initialize" for w in new) and any(w.get("method") == "notifications/initialized" for w in new)
    client = st["client"]
    if mc["second"] == "initialize" and kind == "return":
        if not handshake_done:
            out["violations"].append({"cls": "C03/accepted", "sig": "C03/accepted:no-handshake-performed",
                                      "msg": f"MCPClient.initialize() reported success ({str(val)[:80]}) after an earlier cancelled attempt, but this call wrote "
                                             f"{[w.get('method') for w in new]} - no initialize request / initialized notification"})
        elif not ans_ok:
            out["violations"].append({"cls": "C03/accepted", "sig": "C03/accepted:mismatch", "msg": f"MCPClient.initialize() succeeded on unsupported answer {mc['answer_version']!r}"})
    if kind == "return" and client.initialized and not any(w.get("method") == "initialize" for w in new) and st["n_before"] <= 1 and mc["first"] == "cancelled":
        if mc["second"] != "initialize":
            out["violations"].append({"cls": "C03/accepted", "sig": "C03/accepted:no-handshake-performed",
                                      "msg": "a request helper ran on an MCPClient whose only handshake attempt was cancelled; no handshake was performed"})
    if kind == "raise" and ans_ok and mc["second"] == "initialize":
        out["violations"].append({"cls": "C03/outcome", "sig": "C03/outcome:mcpclient-retry-failed",
                                  "msg": f"the second MCPClient.initialize() raised {type(val).__name__}: {str(val)[:100]} although the server answered acceptably"})
    out["history"] = {"api": "mcpclient", "spec": mc, "after_first": st.get("after_first"), "new_writes": [w.get("method") for w in new],
                      "outcome": f"{kind}:{type(val).__name__}", "versions_set_on_transport": st["versions_set"]}
    return out


def _execute_reconnect(scn: dict) -> dict:
    """Two consecutive connections through the SAME StdioClient object, each with a tracked handshake: the batching mode
    after the second handshake must be the one belonging to the second negotiated version (also when it equals the first)."""
    import json
    stdio = importlib.import_module("chuk_mcp.transports.stdio.stdio_client")
    ini = importlib.import_module("chuk_mcp.protocol.messages.initialize.send_messages")
    from chuk_mcp.transports.stdio.parameters import StdioParameters
    from sim.fakes.process import ProcessFactory

    fu = FakeUUID(scn["uuid_seed"])
    versions = scn["reconnect"]["versions"]
    st = {"sessions": []}

    async def main(sim):
        def responder(line: bytes):
            try:
                o = json.loads(line)
            except Exception:
                return []
            if isinstance(o, dict) and o.get("method") == "initialize" and "id" in o:
                res = {"jsonrpc": "2.0", "id": o["id"], "result": {"protocolVersion": o["params"]["protocolVersion"], "capabilities": {},
                                                                  "serverInfo": {"name": "sim", "version": "1"}}}
                return [(ticks(2), [json.dumps(res).encode() + b"\n"])]
            return []

        factory = ProcessFactory(sim, lambda idx, argv, env: {"read_mode": "eager", "responder": responder, "term_latency": ticks(1)})
        st["factory"] = factory
        with patched((anyio, "open_process", factory), (_uuid, "uuid4", fu)):
            client = stdio.StdioClient(StdioParameters(command="sim-child", args=[]))
            for n_, v in enumerate(versions):
                rec = {"v": v}
                st["sessions"].append(rec)
                async with client:
                    r, w = client.get_streams()
                    try:
                        res = await ini.send_initialize_with_client_tracking(r, w, client=client, timeout=2.0, supported_versions=[v])
                        rec["negotiated"] = str(res.protocolVersion)
                    except BaseException as e:  # noqa
                        rec["error"] = repr(e)[:100]
                        continue
                    rec["info"] = client.get_batching_info()
                    child = factory.children[-1]
                    child.write_stdout([json.dumps([{"jsonrpc": "2.0", "method": "notifications/message", "params": {"data": f"in-batch-{n_}"}}]).encode() + b"\n"])
                    got = []
                    with anyio.move_on_after(0.5):
                        while True:
                            got.append(await r.receive())
                    rec["member_delivered"] = any(getattr(m, "method", None) == "notifications/message" for m in got)
                    rec["rejected"] = any(b"-32600" in ln for ln in child.lines_in)
                await anyio.sleep(1.0)

    info = run_sim(main, max_steps=200_000, max_vtime=300.0)
    sim = info.sim
    out = {"violations": [], "digest": sim.digest(), "isig": sim.isig() + ":reconnect:" + ",".join(versions), "faults": dict(sim.faults),
           "probes": dict(sim.probes), "vtime": info.vtime, "steps": info.steps, "harness": list(sim.harness_errors),
           "nontrivial": True, "history": None}
    if info.deadlock or info.limit or info.exc is not None:
        out["harness"].append(f"run did not complete: deadlock={info.deadlock} limit={info.limit} exc={info.exc!r}")
        return out
    out["probes"]["reconnect_same_client"] = 1
    for n_, rec in enumerate(st["sessions"]):
        v = rec["v"]
        if "error" in rec:
            out["violations"].append({"cls": "C03/outcome", "sig": "C03/outcome:reconnect-handshake-failed",
                                      "msg": f"connection {n_ + 1} (version {v}) through the same StdioClient failed: {rec['error']}"})
            continue
        batching = _date_lt_cutoff(v)
        i_ = rec["info"]
        if rec["negotiated"] != v or i_["protocol_version"] != v or i_["batching_enabled"] != batching or \
                rec["member_delivered"] != batching or rec["rejected"] == batching:
            out["violations"].append({"cls": "C03/tracking", "sig": "C03/tracking:batching-mode-after-reconnect",
                                      "msg": f"connection {n_ + 1} of {versions}: negotiated {rec['negotiated']}, client reports {i_}, a batch sent afterwards was "
                                             f"{'delivered' if rec['member_delivered'] else 'not delivered'} / {'rejected' if rec['rejected'] else 'not rejected'}; "
                                             f"version {v} {'has' if batching else 'has no'} batching"})
            break
    out["history"] = {"api": "reconnect", "sessions": st["sessions"]}
    return out


def _execute_stdio(scn: dict) -> dict:
    """The same handshake through the real stdio_client_with_initialize on a FakeProcess: the wire is the child's
    stdin/stdout, and the tracked client's batching mode is observed behaviourally (a batch sent after the handshake)."""
    import json
    stdio = importlib.import_module("chuk_mcp.transports.stdio.stdio_client")
    from chuk_mcp.transports.stdio.parameters import StdioParameters
    from chuk_mcp.protocol.types.errors import VersionMismatchError
    from sim.fakes.process import ProcessFactory

    fu = FakeUUID(scn["uuid_seed"])
    supported, preferred, timeout = scn["supported"], scn["preferred"], scn["timeout"]
    proposed = preferred if (preferred and preferred in supported) else supported[0]
    ans = scn["answer"]
    st = {"read": []}

    def version_for(kind, pick):
        if kind == "proposed":
            return proposed
        others = [v for v in supported if v != proposed] or [proposed]
        return others[pick % len(others)]

    async def main(sim):
        def responder(line: bytes):
            try:
                o = json.loads(line)
            except Exception:
                return []
            if not (isinstance(o, dict) and o.get("method") == "initialize" and "id" in o):
                return []
            st["init_seen"] = o
            k = ans["kind"]
            base = {"capabilities": {}, "serverInfo": {"name": "sim", "version": "1"}}
            if k in ("proposed", "other_supported"):
                res = {"jsonrpc": "2.0", "id": o["id"], "result": dict(base, protocolVersion=version_for(k, ans.get("pick", 0)))}
            elif k in ("unsupported", "wellformed_unknown", "nonstring_version"):
                res = {"jsonrpc": "2.0", "id": o["id"], "result": dict(base, protocolVersion=ans["version"])}
            elif k == "error":
                res = {"jsonrpc": "2.0", "id": o["id"], "error": {"code": ans["code"], "message": ans["text"]}}
            elif k == "error_with_result":
                # an error envelope that also carries a perfectly good-looking result: still an error
                res = {"jsonrpc": "2.0", "id": o["id"], "error": {"code": ans["code"], "message": ans["text"]},
                       "result": dict(base, protocolVersion=version_for("proposed", 0))}
            elif k == "silence":
                return []
            else:  # the malformed-result classes
                res = {"jsonrpc": "2.0", "id": o["id"], "result": {"capabilities": {}}}
            st["answer"] = res
            st["answer_t"] = sim.now() + ticks(ans["t"])
            return [(ticks(ans["t"]), [json.dumps(res).encode() + b"\n"])]

        factory = ProcessFactory(sim, lambda idx, argv, env: {"read_mode": "eager", "responder": responder, "term_latency": ticks(1)})
        st["factory"] = factory
        with patched((anyio, "open_process", factory), (_uuid, "uuid4", fu)):
            st["t_call"] = sim.now()
            try:
                async with stdio.stdio_client_with_initialize(StdioParameters(command="sim-child", args=[]), timeout=timeout,
                                                              supported_versions=list(supported), preferred_version=preferred) as (r, w, res):
                    st["outcome"] = ("return", res)
                    st["t_done"] = sim.now()
                    child = factory.children[0]
                    st["lines_at_return"] = len(child.lines_in)
                    # behavioural probe of the tracked batching mode
                    child.write_stdout([json.dumps([{"jsonrpc": "2.0", "method": "notifications/message", "params": {"data": "in-batch"}}]).encode() + b"\n"])
                    with anyio.move_on_after(0.5):
                        while True:
                            st["read"].append(await r.receive())
            except BaseException as e:  # noqa
                if "outcome" not in st:
                    st["outcome"] = ("raise", e)
                    st["t_done"] = sim.now()
                else:
                    st["exit_exc"] = e
            await anyio.sleep(3.0)

    info = run_sim(main, max_steps=100_000, max_vtime=200.0)
    sim = info.sim
    out = {"violations": [], "digest": sim.digest(), "isig": sim.isig() + ":stdio", "faults": dict(sim.faults),
           "probes": dict(sim.probes), "vtime": info.vtime, "steps": info.steps, "harness": list(sim.harness_errors),
           "nontrivial": True, "history": None}
    if info.deadlock or info.limit or info.exc is not None or "outcome" not in st:
        out["harness"].append(f"run did not complete: deadlock={info.deadlock} limit={info.limit} exc={info.exc!r}")
        return out

    def V(cls, sig, msg):
        out["violations"].append({"cls": f"C03/{cls}", "sig": f"C03/{cls}:{sig}", "msg": msg})

    def probe(k):
        out["probes"][k] = out["probes"].get(k, 0) + 1

    probe("through_real_stdio_client")
    child = st["factory"].children[0] if st["factory"].children else None
    lines = []
    for raw in (child.lines_in if child else []):
        try:
            lines.append(json.loads(raw))
        except Exception:
            lines.append({"<unparsable>": True})
    kind, val = st["outcome"]
    inits = [l for l in lines if l.get("method") == "initialize"]
    inited = [l for l in lines if l.get("method") == "notifications/initialized"]
    if not lines or lines[0].get("method") != "initialize" or len(inits) != 1:
        V("first-write", "not-initialize", f"child's stdin saw {[l.get('method') for l in lines]}")
    elif (inits[0].get("params") or {}).get("protocolVersion") != proposed:
        V("proposed-version", "wrong", f"proposed {(inits[0].get('params') or {}).get('protocolVersion')!r}, expected {proposed!r}")
    deadline = st["t_call"] + timeout
    a = st.get("answer")
    answered_in_time = a is not None and st["answer_t"] < deadline
    at_edge = a is not None and st["answer_t"] == deadline
    if a is None or not (answered_in_time or at_edge):
        verdicts = [("silence",)]
    else:
        r_ = a.get("result") if "result" in a else None
        if "error" in a:
            vd = ("error",)
        elif not isinstance(r_.get("protocolVersion"), str) or "serverInfo" not in r_:
            vd = ("malformed",)
        else:
            vd = ("success", r_["protocolVersion"]) if r_["protocolVersion"] in supported else ("mismatch", r_["protocolVersion"])
        verdicts = [vd] + ([("silence",)] if at_edge else [])

    def ok(vd):
        if vd[0] == "success":
            return kind == "return" and str(getattr(val, "protocolVersion", None)) == vd[1]
        if vd[0] == "mismatch":
            return kind == "raise" and isinstance(val, VersionMismatchError)
        if vd[0] == "silence":
            return kind == "raise" and isinstance(val, TimeoutError)
        return kind == "raise" and isinstance(val, Exception)

    match = next((vd for vd in verdicts if ok(vd)), None)
    desc = f"{kind}:{type(val).__name__}:{str(getattr(val, 'protocolVersion', val))[:80]}"
    if match is None:
        if kind == "return":
            V("accepted", verdicts[0][0], f"stdio_client_with_initialize yielded {desc} although the server's answer was {verdicts[0]!r} (supported={supported})")
        else:
            V("outcome", f"{verdicts[0][0]}->{type(val).__name__}", f"stdio_client_with_initialize ended with {desc}; expected per {verdicts!r}")
        match = verdicts[0]
    if kind == "return":
        if len(inited) != 1:
            V("initialized", f"count={len(inited)}:on-success", f"{len(inited)} initialized notifications on the child's stdin after a successful handshake")
        v = str(val.protocolVersion)
        if WELL.match(v):
            batching = _date_lt_cutoff(v)
            got_member = any(getattr(m, "method", None) == "notifications/message" for m in st["read"])
            rejected = any(isinstance(l.get("error"), dict) and l["error"].get("code") == -32600 for l in lines)
            if batching and (not got_member or rejected):
                V("tracking", "batching-mode", f"negotiated {v} (batching version) but a batch sent afterwards was {'rejected' if rejected else 'not delivered'}")
            if (not batching) and (got_member or not rejected):
                V("tracking", "batching-mode", f"negotiated {v} (no batching) but a batch sent afterwards was {'delivered' if got_member else 'not answered with -32600'}")
    else:
        if inited:
            V("initialized", f"sent-after-{match[0]}", f"initialized notification reached the child although initialization failed ({desc})")
    if child is not None and child.alive:
        V("cleanup", "child-left-running", "the child is still running 3 s after stdio_client_with_initialize was left")
    out["faults"]["answer:" + ans["kind"]] = 1
    out["history"] = {"api": "stdio", "supported": supported, "preferred": preferred, "proposed": proposed, "answer": st.get("answer"),
                      "stdin_methods": [l.get("method", "response/error") for l in lines], "outcome": desc, "verdicts": repr(verdicts)}
    return out


def _execute_raw(scn: dict) -> dict:
    ini = importlib.import_module("chuk_mcp.protocol.messages.initialize.send_messages")
    from chuk_mcp.protocol.types.errors import VersionMismatchError
    from chuk_mcp.transports.stdio.stdio_client import StdioClient
    from chuk_mcp.transports.stdio.parameters import StdioParameters

    fu = FakeUUID(scn["uuid_seed"])
    rid = str(fu.value(0))
    supported, preferred, timeout = scn["supported"], scn["preferred"], scn["timeout"]
    proposed = preferred if (preferred and preferred in supported) else supported[0]
    ans = scn["answer"]
    st = {}

    def version_for(kind, pick):
        if kind == "proposed":
            return proposed
        if kind == "other_supported":
            others = [v for v in supported if v != proposed] or [proposed]
            return others[pick % len(others)]
        return None

    def answer_data(a):
        k = a["kind"]
        base = {"capabilities": {"tools": {"listChanged": True}}, "serverInfo": {"name": "sim", "version": "1"}}
        if k in ("proposed", "other_supported"):
            return {"jsonrpc": "2.0", "id": rid, "result": dict(base, protocolVersion=version_for(k, a.get("pick", 0)))}
        if k in ("unsupported", "wellformed_unknown", "nonstring_version"):
            return {"jsonrpc": "2.0", "id": rid, "result": dict(base, protocolVersion=a["version"])}
        if k == "missing_version":
            return {"jsonrpc": "2.0", "id": rid, "result": base}
        if k == "null_version":
            return {"jsonrpc": "2.0", "id": rid, "result": dict(base, protocolVersion=None)}
        if k == "missing_serverinfo":
            return {"jsonrpc": "2.0", "id": rid, "result": {"protocolVersion": proposed, "capabilities": {}}}
        if k == "bad_caps":
            return {"jsonrpc": "2.0", "id": rid, "result": {"protocolVersion": proposed, "capabilities": "yes", "serverInfo": {"name": "s", "version": "1"}}}
        if k == "result_not_object":
            return {"jsonrpc": "2.0", "id": rid, "result": {"value": [proposed]}}
        if k == "error":
            return {"jsonrpc": "2.0", "id": rid, "error": {"code": a["code"], "message": a["text"]}}
        if k == "error_with_result":
            return {"jsonrpc": "2.0", "id": rid, "error": {"code": a["code"], "message": a["text"]}, "result": dict(base, protocolVersion=proposed)}
        return None

    async def main(sim):
        to_client_send, to_client_recv = anyio.create_memory_object_stream(100)
        sr = scn.get("slow_reader")
        from_client_send, from_client_recv = anyio.create_memory_object_stream(sr["wbuf"] if sr else 100)
        rr = RecRecv(sim, to_client_recv)
        ws = RecSend(sim, from_client_send)
        st["ws"], st["rr"] = ws, rr
        delivered = []
        st["delivered"] = delivered
        if sr:
            # the peer takes the client's messages off the wire slowly: send() blocks until it does
            async def slow_reader():
                k_ = 0
                while True:
                    d_ = sr["delays"][k_] if k_ < len(sr["delays"]) else 0
                    if d_:
                        await anyio.sleep(ticks(d_))
                    try:
                        await from_client_recv.receive()
                    except (anyio.EndOfStream, anyio.ClosedResourceError):
                        return
                    k_ += 1
            asyncio.get_running_loop().create_task(slow_reader(), name="slow-reader")
            sim.fault("write_stream_backpressure")

        def deliver(kind, data):
            obj = build_inbound(scn["mode"], data)
            if obj is None and kind == "answer:error_with_result":
                # what a transport that is lenient about the extra member would hand over: the error model with the result riding along
                try:
                    from chuk_mcp.protocol.messages.json_rpc_message import JSONRPCError as _E
                    obj = _E(jsonrpc="2.0", id=data["id"], error=data["error"], result=data["result"])
                    if getattr(obj, "result", None) is None:
                        object.__setattr__(obj, "result", data["result"])
                    sim.probe("error_answer_carrying_a_result")
                except Exception:
                    obj = None
            if obj is None:
                sim.rec("peer", "unbuildable", kind)
                return
            e = sim.rec("peer", "deliver:" + kind, None)
            delivered.append({"eseq": e, "t": sim.now(), "kind": kind, "data": data})
            to_client_send.send_nowait(obj)

        for ev in scn["events"]:
            data = {"notification": {"jsonrpc": "2.0", "method": "notifications/message", "params": {"data": ev["m"]}},
                    "foreign_response": {"jsonrpc": "2.0", "id": "foreign-" + ev["m"], "result": {"x": 1}},
                    "foreign_init_result": {"jsonrpc": "2.0", "id": "foreign-" + ev["m"], "result": {"protocolVersion": proposed, "capabilities": {}, "serverInfo": {"name": "f", "version": "0"}}},
                    "server_request": {"jsonrpc": "2.0", "id": "srv-" + ev["m"], "method": "roots/list"}}[ev["kind"]]
            sim.at(ticks(ev["t"]), deliver, "distractor:" + ev["kind"], data, tie=ev["tie"], hops=ev["hops"])
        ad = answer_data(ans)
        if ad is not None:
            sim.at(ticks(ans["t"]), deliver, "answer:" + ans["kind"], ad, tie=ans["tie"], hops=ans["hops"])
            if scn["dup"]:
                dd = scn["dup"]
                dk = dd["kind"]
                if dk == "unsupported":
                    ddata = {"jsonrpc": "2.0", "id": rid, "result": {"protocolVersion": "1900-01-01", "capabilities": {}, "serverInfo": {"name": "s", "version": "1"}}}
                else:
                    ddata = {"jsonrpc": "2.0", "id": rid, "result": {"protocolVersion": version_for(dk, dd["pick"]), "capabilities": {}, "serverInfo": {"name": "dup", "version": "2"}}}
                sim.at(ticks(ans["t"] + dd["dt"]), deliver, "dup:" + dk, ddata, tie=2, hops=ans["hops"] + 1)

        if scn.get("break_write_after_request") and not sr:
            # the peer reads the initialize request and then its end of the client's write channel goes away
            async def breaker():
                try:
                    await from_client_recv.receive()
                except Exception:
                    return
                st["wire_broken_eseq"] = sim.rec("peer", "write-channel-broken", None)
                from_client_recv.close()
            asyncio.get_running_loop().create_task(breaker(), name="wire-breaker")
            sim.fault("write_channel_broken_after_request")
        cc = scn.get("concurrent")
        if cc:
            # an unrelated second handshake in the same process (own streams, own supported list), in flight at the same time
            async def other_handshake():
                o_to_send, o_to_recv = anyio.create_memory_object_stream(10)
                o_from_send, o_from_recv = anyio.create_memory_object_stream(10)
                await anyio.sleep(ticks(cc["start"]))

                async def other_server():
                    req = await o_from_recv.receive()
                    await anyio.sleep(ticks(cc["answer_dt"]))
                    d = dump(req)
                    o_to_send.send_nowait(build_inbound("parse_message", {"jsonrpc": "2.0", "id": d["id"], "result": {
                        "protocolVersion": d["params"]["protocolVersion"], "capabilities": {}, "serverInfo": {"name": "other", "version": "1"}}}))
                    with anyio.move_on_after(1.0):
                        await o_from_recv.receive()
                asyncio.get_running_loop().create_task(other_server(), name="other-server")
                try:
                    r2 = await ini.send_initialize(o_to_recv, o_from_send, timeout=10.0, supported_versions=list(cc["supported"]))
                    st["other_outcome"] = ("ok", str(r2.protocolVersion))
                except BaseException as e2:  # noqa
                    st["other_outcome"] = ("raise", repr(e2)[:80])
            asyncio.get_running_loop().create_task(other_handshake(), name="other-handshake")
        client = None
        if scn["api"] == "tracking":
            client = StdioClient(StdioParameters(command="sim-server", args=[]))
            if scn["pre_version"]:
                client.set_protocol_version(scn["pre_version"])
            st["client"] = client
            st["before"] = client.get_batching_info()
        st["t_call"] = sim.now()
        sim.rec("client", "call", scn["api"])
        try:
            kw = dict(timeout=timeout, supported_versions=list(supported), preferred_version=preferred)
            if scn["api"] == "tracking":
                res = await ini.send_initialize_with_client_tracking(rr, ws, client=client, **kw)
            else:
                res = await ini.send_initialize(rr, ws, **kw)
            st["outcome"] = ("return", res)
        except BaseException as e:  # noqa
            st["outcome"] = ("raise", e)
        st["t_done"] = sim.now()
        st["done_eseq"] = sim.rec("client", "done", st["outcome"][0])
        await anyio.sleep(2.0 + (ticks(sum(sr["delays"])) if sr else 0.0))  # quiescence: nothing may be written later

    with patched((_uuid, "uuid4", fu)):
        info = run_sim(main, max_steps=50_000, max_vtime=100.0)
    sim = info.sim
    out = {"violations": [], "digest": sim.digest(), "isig": sim.isig(), "faults": dict(sim.faults),
           "probes": dict(sim.probes), "vtime": info.vtime, "steps": info.steps, "harness": list(sim.harness_errors),
           "nontrivial": False, "history": None}
    if info.deadlock or info.limit or info.exc is not None or "outcome" not in st:
        out["harness"].append(f"run did not complete: deadlock={info.deadlock} limit={info.limit} exc={info.exc!r}")
        return out

    def V(cls, sig, msg):
        out["violations"].append({"cls": f"C03/{cls}", "sig": f"C03/{cls}:{sig}", "msg": msg})

    def probe(k):
        out["probes"][k] = out["probes"].get(k, 0) + 1

    ws, delivered = st["ws"], st["delivered"]
    writes = [(e, t, dump(item)) for (e, t, _tn, item) in ws.items]
    kind, val = st["outcome"]
    inits = [w for w in writes if w[2].get("method") == "initialize"]
    inited = [w for w in writes if w[2].get("method") == "notifications/initialized"]
    other_w = [w for w in writes if w not in inits and w not in inited]
    # (1) first message written is initialize with the right proposed version
    if not writes or writes[0][2].get("method") != "initialize":
        V("first-write", "not-initialize", f"first message written: {writes[0][2] if writes else None!r:.150}")
    if len(inits) != 1:
        V("first-write", f"initialize-count={len(inits)}", f"{len(inits)} initialize requests written")
    else:
        p = inits[0][2].get("params") or {}
        if p.get("protocolVersion") != proposed:
            V("proposed-version", "wrong", f"proposed {p.get('protocolVersion')!r}, expected {proposed!r} (supported={supported}, preferred={preferred!r})")
        if "id" not in inits[0][2] or "clientInfo" not in p or "capabilities" not in p:
            V("first-write", "malformed-initialize", f"{inits[0][2]!r:.200}")
    if other_w:
        V("extra-write", "unexpected", f"unexpected outbound message {other_w[0][2]!r:.150}")
    t_w = inits[0][1] if inits else st["t_call"]
    deadline = t_w + timeout
    if preferred and preferred not in supported:
        probe("preferred_not_in_list")
    if scn.get("slow_reader"):
        probe("write_stream_backpressure")

    # the answer the client should act upon: first delivered matching response before the deadline
    first, edge = None, None
    for d in delivered:
        dd = d["data"]
        if "method" not in dd and dd.get("id") == rid:
            if d["t"] < deadline:
                first = d
            elif d["t"] == deadline:
                edge = d
                probe("answer_exactly_at_timeout")
            break
    if scn["dup"] and any(d["kind"].startswith("dup:") for d in delivered):
        probe("duplicate_answer")

    def judge(d):
        """-> ('success', version) | ('mismatch', version) | ('error',) | ('malformed',)"""
        dd = d["data"]
        if "error" in dd:
            return ("error",)
        r = dd["result"]
        v = r.get("protocolVersion") if isinstance(r, dict) else None
        si = r.get("serverInfo") if isinstance(r, dict) else None
        caps = r.get("capabilities") if isinstance(r, dict) else None
        if not isinstance(v, str) or not isinstance(si, dict) or not isinstance(caps, dict) or "name" not in si or "version" not in si:
            return ("malformed",)
        return ("success", v) if v in supported else ("mismatch", v)

    verdicts = []
    if first is not None:
        verdicts.append(judge(first))
    else:
        verdicts.append(("silence",))
        if edge is not None:
            verdicts.append(judge(edge))

    broken = st.get("wire_broken_eseq")
    if broken is not None and any(vd[0] == "success" for vd in verdicts):
        # the answer is fine but the initialized notification cannot be delivered any more: success is impossible
        verdicts = [("wire-broken",) if vd[0] == "success" else vd for vd in verdicts]
        probe("write_channel_broken_after_request")
    if scn.get("concurrent") and "other_outcome" in st:
        probe("concurrent_second_handshake")
        oo = st["other_outcome"]
        if not (oo[0] == "ok" and oo[1] == scn["concurrent"]["supported"][0]):
            V("concurrent", "other-handshake-disturbed", f"the unrelated concurrent handshake (supports {scn['concurrent']['supported']}, echoing server) ended with {oo!r}")

    def outcome_matches(vd):
        if vd[0] == "success":
            return kind == "return" and str(getattr(val, "protocolVersion", None)) == vd[1]
        if vd[0] == "mismatch":
            return kind == "raise" and isinstance(val, VersionMismatchError)
        if vd[0] == "silence":
            return kind == "raise" and isinstance(val, TimeoutError)
        return kind == "raise" and isinstance(val, Exception)  # error / malformed: any exception

    match = next((vd for vd in verdicts if outcome_matches(vd)), None)
    desc = f"{kind}:{type(val).__name__}:{str(getattr(val, 'protocolVersion', val))[:80]}"
    if match is None:
        vd = verdicts[0]
        if kind == "return":
            V("accepted", f"{vd[0]}", f"initialization returned {desc} although the server's answer was {vd!r} (supported={supported})")
        else:
            V("outcome", f"{vd[0]}->{type(val).__name__}", f"initialization ended with {desc}; expected per {verdicts!r}")
        match = verdicts[0]
    # (3)/(4) the initialized notification
    if kind == "return":
        if len(inited) != 1:
            V("initialized", f"count={len(inited)}:on-success", f"{len(inited)} initialized notifications on success")
        else:
            src = first or edge
            if src is not None and not (src["eseq"] < inited[0][0] < st["done_eseq"]):
                V("initialized", "order", "initialized notification not between the answer's delivery and the call's return")
            if "id" in inited[0][2]:
                V("initialized", "has-id", "initialized notification carries an id")
    else:
        if inited:
            V("initialized", f"sent-after-{match[0]}", f"initialized notification written although initialization failed ({desc}); writes={[(w[1], w[2].get('method')) for w in writes]}")
    # tracked client
    if scn["api"] == "tracking":
        after = st["client"].get_batching_info()
        if kind == "return":
            v = str(val.protocolVersion)
            if after["protocol_version"] != v:
                V("tracking", "version-not-recorded", f"client tracks {after['protocol_version']!r}, answer was {v!r}")
            if WELL.match(v) and after["batching_enabled"] != _date_lt_cutoff(v):
                V("tracking", "batching-mode", f"batching_enabled={after['batching_enabled']} for negotiated {v}")
            elif not WELL.match(v):
                # a version label that is no date: whatever mode the library gives such a version, a client that arrived there through a
                # handshake must be in the same mode as a client created for that version directly (no leftovers of the previous one)
                from chuk_mcp.protocol.features.batching import BatchProcessor as _BP
                fresh = _BP(v).batching_enabled
                if after["batching_enabled"] != fresh:
                    V("tracking", "batching-mode-left-over", f"batching_enabled={after['batching_enabled']} after negotiating {v!r} (before: {st['before']}); "
                                                             f"a processor created for {v!r} says {fresh}")
                probe("negotiated_a_version_label_that_is_no_date")
        elif after != st["before"]:
            V("tracking", "changed-on-failure", f"tracked client changed from {st['before']} to {after} although initialization failed")
    # probes / faults
    m0 = match[0]
    if m0 == "success":
        if match[1] != proposed:
            probe("counter_proposal_accepted")
        if match[1] not in REAL:
            probe("invented_version_accepted")
    probe({"mismatch": "mismatch_rejected", "malformed": "malformed_answer", "error": "error_answer", "silence": "silence"}.get(m0, "plain_success")) if m0 != "success" else None
    out["faults"]["answer:" + ans["kind"]] = 1
    for d in delivered:
        if d["kind"].startswith("distractor") or d["kind"].startswith("dup"):
            out["faults"][d["kind"]] = out["faults"].get(d["kind"], 0) + 1
    out["nontrivial"] = not (ans["kind"] == "proposed" and ans["t"] <= 1 and not scn["events"] and not scn["dup"])
    out["history"] = {"supported": supported, "preferred": preferred, "proposed": proposed, "deadline": deadline, "t_done": st["t_done"],
                      "delivered": [(d["t"], d["kind"], d["data"].get("result", d["data"].get("error")) if isinstance(d["data"], dict) else None) for d in delivered][:8],
                      "writes": [(t, w.get("method"), (w.get("params") or {}).get("protocolVersion")) for (_e, t, w) in writes],
                      "outcome": desc, "verdicts": repr(verdicts)}
    return out
