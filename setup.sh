#!/bin/sh
# Nothing to build: the framework is pure Python run by /venv/bin/python against /repo/src.
set -e
/venv/bin/python - <<'PY'
import sys
import anyio, httpx, pydantic  # noqa
sys.path.insert(0, "/repo/src")
import chuk_mcp  # noqa
print("setup ok", sys.version.split()[0])
PY
mkdir -p /verif/evidence /verif/replays
