#!/usr/bin/env python3
"""Merge evaluation results (tools/eval_seeded.py output + test-suite confirmation) into seeded/<id>/meta.json
and regenerate seeded/README.md.   usage: seeded_table.py <dir with <id>.json and <id>.tests files>"""
import glob
import json
import os
import sys

VERIF = os.path.dirname(os.path.dirname(os.path.abspath(__file__)))
evd = sys.argv[1] if len(sys.argv) > 1 else "/tmp/seed-eval"
rows = []
for d in sorted(glob.glob(os.path.join(VERIF, "seeded", "C*-*"))):
    n = os.path.basename(d)
    meta = json.load(open(os.path.join(d, "meta.json")))
    ev = {}
    p = os.path.join(evd, n + ".json")
    if os.path.exists(p) and os.path.getsize(p):
        ev = json.load(open(p))
    tests = ""
    tp = os.path.join(evd, n + ".tests")
    if os.path.exists(tp):
        lines = [l.strip() for l in open(tp).read().splitlines() if l.strip()]
        tests = lines[-1] if lines else ""
        failed = [l for l in lines if l.startswith("FAILED") or l.startswith("ERROR")]
    else:
        failed = []
    if ev.get("tests_tail"):
        # prefer the suite result measured in the same evaluation run; fall back to a separate confirmation run if that one was flaky
        if ev.get("tests_pass") or not tests:
            tests = ev["tests_tail"]
    if ev:
        checks = ev.get("checks", {})
        caught_by = [k for k, v in checks.items() if v["exit"] == 1]
        sigs = sorted({s for v in checks.values() for s in v.get("sigs", [])})
        meta["confirmed_here"] = {
            "demo_exit_clean_tree": ev.get("demo_clean_exit"), "demo_exit_with_patch": ev.get("demo_patched_exit"),
            "suite_with_patch": tests, "suite_failures_with_patch": failed,
            "checks_run": {k: v["exit"] for k, v in checks.items()}, "caught_by": caught_by, "signatures": sigs[:6],
            "how": "tools/eval_seeded.py (scratch worktree of /repo, git apply patch.diff, demo.py, pytest, ./check with VERIF_REPO_SRC)",
        }
        meta["breaks_property"] = meta.get("property", n.split("-")[0])
        json.dump(meta, open(os.path.join(d, "meta.json"), "w"), indent=1, ensure_ascii=False)
    rows.append((n, meta.get("property", n.split("-")[0]), (meta.get("summary") or "")[:150].replace("|", "/").replace("\n", " "),
                 (meta.get("needs") or "")[:130].replace("|", "/").replace("\n", " "),
                 ", ".join(meta.get("confirmed_here", {}).get("caught_by", [])) or "MISSED",
                 "; ".join(meta.get("confirmed_here", {}).get("signatures", [])[:2]), tests[:40]))
with open(os.path.join(VERIF, "seeded", "README.md"), "w") as f:
    f.write("# Seeded breaking changes (sensitivity set)\n\n"
            "Written by independent sub-agents that saw only the property text and a scratch worktree. Each directory holds `patch.diff` "
            "(applies to /repo with `git apply`), `demo.py` (exit 0 on the clean tree, 1 with the patch) and `meta.json` (what it breaks, what it "
            "needs to manifest, how it was confirmed here). None of these is ever committed to /repo.\n\n"
            "| id | property | change | needs | caught by | signatures | suite with patch |\n|---|---|---|---|---|---|---|\n")
    for r in rows:
        f.write("| " + " | ".join(r) + " |\n")
    missed = [r[0] for r in rows if r[4] == "MISSED"]
    f.write(f"\n{len(rows)} changes, {len(rows) - len(missed)} caught" + (f"; missed: {', '.join(missed)}" if missed else "") + ".\n")
print(f"{len(rows)} rows")
