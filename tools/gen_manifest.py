#!/usr/bin/env python3
"""Regenerates /verif/MANIFEST.json from the table below (keeps it schema-valid)."""
import json
import os

VERIF = os.path.dirname(os.path.dirname(os.path.abspath(__file__)))

NA = {
    "C02": "pure function of the input (message constructors/serialisers): no schedule, clock, fault or interleaving for a simulator to own",
    "C07": "pure total function of an integer error code; no schedule, clock, fault or interleaving (that a matching error response raises with its code is exercised inside the C01 oracle)",
    "C09": "relation between two import-time configurations (Pydantic vs fallback) on the same input; no interleaving, time or fault",
    "C10": "pure validate/dump round-trip of models; no schedule, clock, fault or interleaving",
    "C17": "pure codec functions compared across two import-time configurations; no schedule, clock, fault or interleaving",
}

TECH = "deterministic simulation with fault injection: seeded search over schedules/faults on a virtual-time asyncio loop"

CHECKS = {
    "C01": dict(
        level="exploration", ref="DESIGN.md section 5 C01",
        text="Seeded search over peer histories (kinds x arrival instants around poll edges/deadline x tie order x loop-iteration offset) "
             "against the real send_message/typed helpers on a virtual-time loop; oracle is the reference model 'first matching response "
             "delivered before the deadline' plus write-side exactly-once. Evidence, not proof: samples an exponential space.",
        note="Trusts: SimLoop reproduces asyncio FIFO semantics; inbound objects built as the transports build them; anyio/pydantic real.",
        technique=TECH + "; reference-model oracle over the recorded delivery/consumption history"),
    "C03": dict(
        level="exploration", ref="DESIGN.md section 5 C03",
        text="Seeded search over (supported list, preferred, server answer kind, answer instant around the timeout, distractors, duplicate "
             "answer) against the real send_initialize / send_initialize_with_client_tracking; history oracle on what was written and when "
             "(exactly one initialized after acceptance, none ever after a failure - checked again after a quiescence period) and on the "
             "tracked client's batching mode. Sampling of a few-thousand-combination space x timing.",
        note="Trusts: SimLoop; the judge of a 'well-formed answer' is an independent structural check; malformed/error answers may raise any exception.",
        technique=TECH + "; ordering/absence oracle over the recorded write history"),
    "C04": dict(
        level="exploration", ref="DESIGN.md section 5 C04",
        text="A real MCPServer/ProtocolHandler + session store is a server node; 1..3 concurrent clients (the real send_initialize with "
             "generated supported lists, and raw clients for malformed / non-string / absent versions) talk to it over an in-memory network "
             "with generated latencies, messages serialised and re-parsed, so handshakes interleave. Oracle: every initialize answer carries "
             "a supported version (the requested one when supported), the session stored under the id returned by that call records the "
             "version answered to that client, and each real client ends agreed on a mutually supported version or with VersionMismatchError.",
        note="Trusts: SimLoop; the in-memory network; strata sample the complement of the supported set (it cannot be exhausted).",
        technique=TECH + "; multi-client handshake interleaving, invariant on every answer + session record"),
    "C05": dict(
        level="exploration", ref="DESIGN.md section 5 C05",
        text="The real StdioClient reader runs on a FakeProcess whose stdout is cut into short reads: every single cut position of fixed "
             "base streams is swept systematically (all pairs on a short stream in the thorough tier), plus seeded streams of valid and junk "
             "lines (22 junk classes, LF/CRLF, 1..4-byte UTF-8, U+0085/2028/2029) with random, one-byte and targeted cuts (inside a UTF-8 "
             "sequence, inside CRLF, right after LF, >64 KiB lines). Oracle: independent NDJSON splitter + JSON-RPC 2.0 grammar; the result must "
             "be identical for every chunking. Six permissive-parser junk classes are known finding F-C05-1.",
        note="Trusts: the pipe model (a read returns one piece the child wrote); kernel behaviour is modelled, not observed.",
        technique=TECH + "; short-read fault injection at the process seam, reference-model/metamorphic oracle"),
    "C06": dict(
        level="exploration", ref="DESIGN.md section 5 C06",
        text="1..3 producer tasks push typed messages, dicts, pre-serialised strings (compact, pretty-printed, newline-terminated) and "
             "unserialisable objects through the real stdin writer while the fake child reads slowly / stalls (back-pressure, capacities 1 B..64 KiB) "
             "or closes its stdin / dies mid-stream (fault family). Oracle: reference encoder over the order the write stream accepted the items; "
             "whole-line, in-order, content-equal, nothing for unserialisable items, stdin closed after the stream is closed and drained.",
        note="Trusts: the modelled drain/high-water semantics of asyncio's StreamWriter; fault family is judged on whole lines only.",
        technique=TECH + "; back-pressure and child-death injection at the process seam, reference-encoder oracle"),
    "C08": dict(
        level="exploration", ref="DESIGN.md section 5 C08",
        text="Requests and notifications over core, tool/resource, every standard MCP notification name and random methods, params of every "
             "JSON shape and ids 0/negative/huge/strings, are dispatched by 1..3 simulated clients (serially or one task per message) to the real "
             "MCPServer/ProtocolHandler whose tool/resource/custom handlers misbehave per call (raise, return nonsense, sleep first, raise after "
             "sleeping). Oracle: conservation - one response per request id (value and type) of the right class, none per notification, "
             "handle_message never raises, the printed line parses back to the id. A request to notifications/initialized is known finding F-C08-1.",
        note="Trusts: handler fault matrix is representative; the handler keeps no cross-request state, so schedules add little (said in DESIGN.md).",
        technique=TECH + "; handler fault injection (buggify), conservation oracle over the dispatch history"),
    "C11": dict(
        level="fault_enumeration", ref="DESIGN.md section 5 C11",
        text="The real http_client()/StreamableHTTPTransport and the real httpx client layer run on SimHTTPTransport. The per-POST behaviour "
             "matrix {200/202/204/307/308/4xx/5xx} x {json / event-stream / other / absent content type} x {13 body kinds} x {SSE encodings: "
             "event field, space after colon, LF/CRLF, comments, multi-line data, id field, final blank line, foreign event types} x {connect / "
             "timeout / protocol / mid-body failures} x {session header histories} is swept systematically for a request and a notification, each "
             "followed by a plain request (does the sender loop survive?), plus seeded sequences of 1..4 (thorough 6) messages. Oracle: independent "
             "WHATWG event-stream decoder + JSON-RPC grammar; per POST exactly the server's messages, or exactly one terminal message with the "
             "request's id (value and type), nothing for a notification, nothing invented; session header = most recent id issued on a 2xx.",
        note="Trusts: the fake raises httpx timeouts at the configured instant (httpcore bypassed); connection pooling not simulated.",
        technique=TECH + "; systematic HTTP fault enumeration at the httpx transport seam + seeded fault sequences, reference-decoder oracle"),
    "C12": dict(
        level="exploration", ref="DESIGN.md section 5 C12",
        text="The real sse_client()/SSETransport and httpx client layer run on SimHTTPTransport: GET /sse is a live event stream whose bytes are "
             "cut into pieces (n-byte, inside UTF-8 / CRLF / 'data: '), POSTs are answered per scenario. Seeded search over establishment "
             "outcomes {endpoint announced in 7 forms, 4xx/5xx, connect error/timeout, empty / never-announcing / ending stream, announcement "
             "around the timeout} x per-request modes {200 body, 202 then event, event then 202, 202 and silence, other status, exception, bad "
             "JSON} with POST/event order decided by virtual time, tie and loop-iteration offset x server pushes x stream death x exit paths "
             "{normal, exception, outer cancel scope, task.cancel()} at generated instants. Oracle: entered only after the announcement else "
             "raise within the timeout; exactly one terminal per request with its id (value and type) and the server's content when it answered "
             "in time; stream messages once and in order; after exit no task, open httpx client, open event stream or open memory stream. "
             "Response-vs-following-notification order on the event stream is known finding F-C12-1.",
        note="Trusts: the fake raises httpx timeouts (incl. idle-stream read timeout) at the configured instants; keep-alive comments keep the stream alive unless the scenario kills it.",
        technique=TECH + "; POST/event race exploration, chunking, stream death and cancellation injection; exactly-once + resource-release oracles"),
    "C13": dict(
        level="exploration", ref="DESIGN.md section 5 C13",
        text="The real stdio reader + BatchProcessor run on a FakeProcess; the version comes from a simulated handshake or the setter, drawn "
             "from strata {none, supported, cutoff +-1 day/month/year, any dddd-dd-dd in 1990..2199}, and changes mid-connection at instants "
             "around batch arrivals. Oracle: independent (y,m,d) < (2025,6,18) mode model that must also agree with supports_batching and "
             "ProtocolVersion.compare (monotone); rejected batch = exactly one -32600 line on the child's stdin and no member delivered; accepted "
             "batch = every valid member in order, invalid members (10 classes incl. nested arrays) dropped alone. The 2.1M-string grid is "
             "sampled, not exhausted (exhaustion is a different technique).",
        note="Trusts: the pipe model; same-instant version change accepts both modes for that line.",
        technique=TECH + "; version changes injected mid-connection, reference mode model"),
    "C14": dict(
        level="exploration", ref="DESIGN.md section 5 C14",
        text="Seeded search over placements of {token cancel, matching response, deadline} on a ~1 ms virtual grid around poll edges, with "
             "background floods and raising/sleeping progress callbacks, against the real send_message; oracle: completion <= deadline, "
             "cancel within one poll, exactly-once cancelled notification naming the id, callback log = matching progress notifications "
             "delivered before completion. Windows the sentence leaves open are accepted narrowly and counted as probes.",
        note="Trusts: SimLoop timing (zero scheduling noise); slow-callback family is checked for order/values/prefix only.",
        technique=TECH + "; bounded-liveness and exactly-once oracles in virtual time"),
    "C15": dict(
        level="exploration", ref="DESIGN.md section 5 C15",
        text="One generated conversation (initialize + list/call/read/get/ping/raw exchanges, results with nested Unicode and nulls, error "
             "replies with data of several JSON types, 0..3 notifications before each response, string and integer ids incl. negative and > 2^53) "
             "is compiled to all four carriers - stdio on FakeProcess, Streamable HTTP with JSON bodies, Streamable HTTP with SSE bodies, legacy "
             "SSE - each the real transport over its fake, with the same real request helpers on top; only latency and chunking differ. Oracle: "
             "differential equality of the normalised read-stream transcript and the helper outcomes (stdio as reference), and each carrier "
             "against the conversation itself so that two carriers cannot agree on a wrong answer.",
        note="Trusts: the fakes; fault-free by construction; JSON-body HTTP only runs conversations without interleaved notifications.",
        technique=TECH + "; differential execution of one conversation over four simulated carriers"),
    "C16": dict(
        level="fault_enumeration", ref="DESIGN.md section 5 C16",
        text="Systematic product {11 child behaviours: well-behaved, exits early / after k lines, ignores SIGTERM, never reads, floods, closes "
             "stdout / stdin, slow start, unstartable, slow to die} x {5 exit paths: normal, exception, outer cancel scope, timeout around the "
             "context, task.cancel()} x {4 moments incl. inside __aexit__} x entry point, executed against the real StdioClient / stdio_client / "
             "StdioTransport on a FakeProcess, plus seeded scenarios with random latencies, instants and a second cancellation. Oracle: exit "
             "within 2 s + modelled signal latencies of virtual time, child dead and reaped at quiescence, no task left, no fabricated result, "
             "unstartable command raises on entry.",
        note="Trusts: the FakeProcess model of asyncio's subprocess transport (stdout read end released when the transport saw EOF - never while paused above 2 x 64 KiB unread - or on Process.aclose(); SIGKILL always kills); real /proc and fd tables are not observed by the check (one finding was confirmed on a real child by hand).",
        technique=TECH + "; systematic fault enumeration (child behaviour x exit path x moment) + seeded crash/cancel points"),
    "C18": dict(
        level="exploration", ref="DESIGN.md section 5 C18",
        text="Seeded search over 2..4 concurrent callers x answer permutations x answer instants x unrelated traffic on one stream pair; "
             "a consumption log (which task consumed which item) gives the cause of every loss. Cross-talk is a violation; the "
             "architectural lost-response defect is recorded as known finding F-C18-1 by its cause signature, other causes still alarm.",
        note="Trusts: SimLoop FIFO wake-up order equals anyio's; answers are only sent after the peer saw the request.",
        technique=TECH + "; per-caller outcome vs consumption-log oracle"),
    "C19": dict(
        level="exploration", ref="DESIGN.md section 5 C19",
        text="Operation sequences (quick <= 14, thorough <= 200) over the real InMemorySessionManager and ProtocolHandler run under a simulated, "
             "skewable wall clock (idle times placed at max_age-eps / exactly max_age / max_age+eps, zero advance, year jumps, backward skew) "
             "with slow handlers overlapping other operations; a reference dict is stepped in lock-step and the full state is compared after "
             "every operation (return values, expiry of exactly the sessions idle longer than the limit, listing is a copy, one session per "
             "successful initialize, unique ids).",
        note="Trusts: the clock seam (module attribute `time`), seeded uuid4.",
        technique=TECH + "; clock skew/jump injection, lock-step reference-model oracle"),
    "C20": dict(
        level="exploration", ref="DESIGN.md section 5 C20",
        text="Generated config files (1..4 servers, awkward args, env absent/empty/values, timeout shapes, extra keys) and the malformed "
             "classes are fed to the three real entry points - load_config, __main__.test_server, server_manager.run_command (its anyio.run "
             "re-hosted on a SimLoop incl. asyncio.run's shutdown, os.system stubbed) - down to the spawn seam, where a witness records argv/env "
             "of every spawn and a fake MCP child completes the handshake (with latency, chunked answers, junk lines, one unstartable server). "
             "Oracle: one spawn per configured name with exact argv/env, initialize then initialized seen, command function given every "
             "connection, documented exception types from the loader, no child left running.",
        note="Trusts: the spawn seam as witness (not a kernel exec). Nothing here depends on a schedule; the simulator gives hermetic execution and child/file faults.",
        technique=TECH + "; witness at the spawn seam, config/child fault injection"),
}

PENDING = "check not built yet (planned, see DESIGN.md section 5)"
ALL = [f"C{n:02d}" for n in range(1, 21)]


EXTRA = {
    "C01": " Also: 15 typed helpers, falsy message ids, calls with a progress callback (token taken from the wire), and a write stream whose transport stalls past the timeout. A same-id server request shaped like progress; a second call on the same streams afterwards. The read stream closed by the peer while the request is pending (must fail, never return); calls carrying a never-fired token. The caller changes its params dict after the call is over: what was written must not change with it.",
    "C03": " Also run through the real stdio_client_with_initialize on a FakeProcess (batching mode probed behaviourally), with back-pressure on the write stream, a write channel that breaks after the request, an unrelated concurrent handshake in the same process, and reconnect histories over one StdioClient object. MCPClient.initialize retried after a cancelled first attempt. An error answer that also carries a good-looking result. A tracked client arriving at a version label that is no date must be in the mode a processor created for that label has.",
    "C04": " Responses may sit in an outbound queue while other handshakes are handled (aliasing between answers is visible). A client that retries after its own timeout is judged end to end (client and server must agree). A client that builds its list from the library's accessor and edits it; the oracle compares with the supported list as published at import, not with the live object. Calendar-impossible version strings; the tracking wrapper with the first request lost on the way. A server whose ServerInfo carries a title.",
    "C05": " Also: bursts of > 100 lines in one read, legacy per-request streams (open or abandoned), the child exiting with unread output, and an earlier session over the same client object that ended mid-line. Lines of 1-16 MiB; a consumer that closes the main read stream and only listens to notifications while > 100 more messages arrive. A pure-emitter child that never reads its stdin; a child that closes its own stdin but keeps talking while the client writes; ids/methods/keys with leading or trailing white space or separators; an unterminated stderr write. Per-request streams left pending by an earlier session over the same client object.",
    "C06": " Also: frames over 64 KiB, server batches rejected concurrently with the writer (two tasks writing to stdin), values the fast JSON backend refuses (stdlib fallback path). Lone surrogates (raw and escaped); a child that closes its stdout but keeps reading. A typed message changed in place and sent again after its first copy has left the queue. Messages queued through send_json(); an unread inbound flood; long runs of unserialisable messages; a host that pretty-printed through the library's JSON layer first. Typed messages built directly, relying on the model's default for jsonrpc.",
    "C08": " Handler faults include text-less and unprintable exceptions. A second MCPServer object built in the same process must not change the first one's dispatch. Dispatch on sessions created by an earlier initialize with a non-object clientInfo. A dispatch task cancelled mid-handler while other clients ask for the same thing (a stuck dispatch counts as an unanswered request); lone surrogates in method / tool / URI / exception text. Handler exceptions that happen to carry a code attribute (int, str, None). A tool result that contains itself (with a real-time watchdog for a step that never yields).",
    "C11": " SSE encodings include data-less typed events and raw U+2028/2029/0085 in payloads. 1..3 request slots and sequences up to 12 messages (slot leaks on early returns). A mis-addressed response carrying a later request's id; more than 100 messages in one answer. The fake wire honours a disabled read/connect timeout; wrong-charset JSON bodies. Content types with a charset parameter.",
    "C12": " Also: server requests reusing a client id, the response event followed by a failing POST, and a systematic product establishment x exit path x instant x answer mode. Census of tasks and in-flight POSTs at the instant the context is left; bodies leaving with a request in flight; the event stream dead before exit; a greeting coalesced with the endpoint announcement. Falsy request ids (0, \"\"). A caller-supplied session id; a second SSE connection opened and closed in the same process meanwhile.",
    "C13": " Also: counter-proposal handshakes, legacy per-request streams, a saturated outgoing queue with a > 64 KiB frame in flight when the batch is rejected. A notification side stream nobody reads, filled past its 100 slots. Through the StdioTransport wrapper, re-entered after an earlier connection that negotiated another version. Members whose id is neither string nor integer; a batch sent the moment the server has read notifications/initialized. Invalid members the optional fast encoder cannot re-serialise (300 levels deep, lone surrogate).",
    "C14": " Also: params that already carry a progress token, the token found on the wire, and one token shared by a second request. The outgoing side stalling while the cancellation is noticed; callbacks failing with TimeoutError / OSError / the library's CancelledError. Foreign listeners registered on the token beforehand, some failing when it fires. Falsy caller-supplied ids; the outgoing side going away for good before the cancellation is noticed. Progress totals of 0 / 0.0 told apart from absent. Progress callbacks that are callable objects or wrappers returning the coroutine.",
    "C15": " Also through MCPClient/connect_to_server over the Transport classes; > 100 notifications per session; event-before-202 on the SSE carrier; slow notification transit with a lifecycle-enforcing server; untyped SSE events behind data-less keep-alives. A server greeting at connection time (stdio vs legacy SSE, same chunk as the announcement); a session-keeping Streamable HTTP server assigning the id only with the InitializeResult. Server-only texts with a lone-surrogate escape or endpoint-looking paths, \\u-escaped JSON, untyped events on the legacy SSE carrier. Error replies with code 0 or an empty message; results carrying an explicit null error member. A client that pipelines 30-40 requests and starts reading late (> 100 messages pile up). A parameters object reused for a second connection after a server restart.",
    "C16": " Entry points include stdio_client_with_initialize; several conversations over one StdioClient object. A child bursting > 100 messages and exiting by itself; the child's state at the very instant of exit when it dies within the grace periods; floods of 8-30 KiB lines up to what pipe + reader buffers hold, with the open-descriptor clause judged on the transport's EOF/close model. A backlog of > 100 requests parked behind the full outgoing queue when the child dies. A 190 x 2 KiB burst before the child's own exit; large messages queued at exit; busy-waiting exits recognised as hangs. A retry on the same StdioTransport object after a failed start. The real descriptor count of the process around every run; a server environment that asks for quiet logging.",
    "C18": " Runs on raw streams and on the pair returned by stdio_client() over a FakeProcess; ids include int/digit-string twins and falsy ids. Callers with (never fired) tokens; an in-phase, in-order regime that must be loss-free (own signature, not covered by F-C18-1); all answers in one flush with pipe reads coalescing several writes. An answer behind a burst of > 100 notifications in the same write; the pair handed out by sse_client() as a third carrier for the in-phase regime. An answer inside a batch behind a notification; the per-request-stream API as a regime of its own (any order, timing, noise, optional id reuse, dozens of abandoned registrations); id-less error messages as noise. A sibling connection in the same process registering the same request ids. An earlier, never answered attempt under the same id.",
    "C19": " Initialize is also sent with unsupported/malformed versions and with a session id. The process-wide random module re-seeded between creates. Sessions created by an initialize whose clientInfo is no object; any store operation that raises is a violation.",
    "C20": " Also: repeat loads of one unchanged file, unknown names at any position, the default inherited environment compared with the host environment, which changes between launches. The stderr disposition of every spawn with a child that writes more than a pipe holds before answering; configured quiet log levels. The CLI main() with --config, run from a directory holding a decoy default configuration. Arguments/env values with leading or trailing white space; invalid JSON whose error sits at end of input; a busy event loop at the handshake's poll edge (SimLoop.burn); hosts running with DEBUG logging. The fake open_process has anyio's defaults (pipes unless told otherwise), so an omitted stderr= is an unread pipe.",
}


def main():
    checks = []
    for pid, c in CHECKS.items():
        c = dict(c, text=c["text"] + EXTRA.get(pid, ""))
        if not os.path.exists(os.path.join(VERIF, "props", pid.lower() + ".py")):
            continue
        checks.append({
            "property_id": pid,
            "quick_cmd": f"./check {pid} --tier quick",
            "thorough_cmd": f"./check {pid} --tier thorough",
            "evidence_file": f"/verif/evidence/{pid}.json",
            "replay_cmd_template": f"./check {pid} --replay {{path}}",
            "engine": "simloop",
            "level_claimed": {"category": c["level"], "text": c["text"], "design_ref": c["ref"]},
            "level_note": c["note"],
            "technique": c["technique"],
        })
    claimed = {c["property_id"] for c in checks}
    na = []
    for pid in ALL:
        if pid in claimed:
            continue
        na.append({"property_id": pid, "reason": NA.get(pid, PENDING)})
    m = {
        "version": 1,
        "setup_cmd": "./setup.sh",
        "hooks": {
            "guard": "CHUK_MCP_VERIF",
            "enable": "no source hooks: every seam (anyio.open_process, httpx.AsyncClient, time, uuid4, anyio.run, os.system) is an attribute "
                      "looked up at call time and replaced by the simulator for one run; ./check exports CHUK_MCP_VERIF=1 (unused by /repo)",
            "baseline_off_cmd": "cd /repo && /venv/bin/python -m pytest -ra -q -p no:cacheprovider --timeout=900 --continue-on-collection-errors",
            "source_commits": [],
            "add_only": True,
        },
        "engines": [{
            "name": "simloop", "path": "/verif/sim",
            "serves_properties": sorted(claimed),
            "kind_free_text": "custom virtual-time asyncio event loop (SimLoop) + in-process fakes (process, HTTP wire, clock, uuid) + "
                              "seeded scenario generator / pure executor / ddmin shrinker / replay files; one run in eight executes with DEBUG logging enabled "
                              "(so log calls format their arguments); SimLoop.burn(dt) lets a step take virtual time (busy loop)",
        }],
        "checks": checks,
        "notes": "Deterministic simulation with fault injection; see DESIGN.md. Exit codes: 0 held / only known findings, 1 violation, "
                 "2 harness error, 3 replay diverged. Genuine defects repaired in /repo are 'fix:' commits listed in known_findings.json.",
        "not_applicable": na,
    }
    with open(os.path.join(VERIF, "MANIFEST.json"), "w") as f:
        json.dump(m, f, indent=1)
    print("claimed:", sorted(claimed))


if __name__ == "__main__":
    main()
