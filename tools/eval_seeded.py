#!/usr/bin/env python3
"""Evaluate one seeded change: eval_seeded.py <dir with patch.diff, demo.py, meta.json> [--keep] [--tier quick|thorough] [--skip-tests]

Uses a throw-away git worktree of /repo (outside /repo and /verif), never /repo itself:
  1. demo.py on the clean tree must exit 0;
  2. apply patch.diff; the full test suite must pass; demo.py must exit != 0;
  3. run the claimed property's check (quick, then thorough if quick misses) with VERIF_REPO_SRC pointing at the patched tree;
  4. remove the worktree.
Prints one JSON line with the verdicts.
"""
import json
import os
import shutil
import subprocess
import sys
import tempfile

VERIF = os.path.dirname(os.path.dirname(os.path.abspath(__file__)))


def sh(cmd, cwd=None, env=None, timeout=3600):
    p = subprocess.run(cmd, shell=True, cwd=cwd, env=env, capture_output=True, text=True, timeout=timeout)
    return p.returncode, p.stdout + p.stderr


def main():
    d = os.path.abspath(sys.argv[1])
    skip_tests = "--skip-tests" in sys.argv
    only_quick = "--quick-only" in sys.argv
    meta = json.load(open(os.path.join(d, "meta.json")))
    pid = meta.get("property") or os.path.basename(d).split("-")[0]
    props = [a for a in sys.argv[2:] if a.startswith("C") and a[1:].isdigit()] or [pid]
    wt = tempfile.mkdtemp(prefix="verif-seed-")
    os.rmdir(wt)
    res = {"dir": d, "property": pid}
    try:
        rc, out = sh(f"git -C /repo worktree add -q --detach {wt} HEAD")
        assert rc == 0, out
        rc, out = sh(f"/venv/bin/python {d}/demo.py", cwd=wt, timeout=300)
        res["demo_clean_exit"] = rc
        rc, out = sh(f"git apply {d}/patch.diff", cwd=wt)
        res["patch_applies"] = rc == 0
        if rc != 0:
            res["apply_error"] = out[-300:]
            print(json.dumps(res))
            return
        rc, out = sh(f"/venv/bin/python {d}/demo.py", cwd=wt, timeout=300)
        res["demo_patched_exit"] = rc
        res["demo_patched_tail"] = out.strip().splitlines()[-1][:200] if out.strip() else ""
        if not skip_tests:
            rc, out = sh("/venv/bin/python -m pytest -q -p no:cacheprovider --timeout=900 -n 8 tests 2>&1 | tail -3", cwd=wt, timeout=1800)
            tail = out.strip().splitlines()[-1] if out.strip() else ""
            res["tests_tail"] = tail[:160]
            res["tests_pass"] = (" passed" in tail) and ("failed" not in tail) and ("error" not in tail.lower())
        res["checks"] = {}
        for p in props:
            for tier in (["quick"] if only_quick else ["quick", "thorough"]):
                env = dict(os.environ, VERIF_REPO_SRC=os.path.join(wt, "src"), VERIF_NO_EVIDENCE="1", VERIF_REPLAY_DIR=os.path.join(wt, "replays"))
                if tier == "thorough":
                    env["VERIF_WALL"] = "240"
                rc, out = sh(f"{VERIF}/check {p} --tier {tier}", cwd=VERIF, env=env, timeout=1800)
                sigs = sorted({ln.split("sig=")[1].split(" ")[0] for ln in out.splitlines() if "sig=" in ln and "class=" in ln})
                res["checks"][f"{p}:{tier}"] = {"exit": rc, "sigs": sigs[:6]}
                if rc == 1:
                    break
        res["caught"] = any(v["exit"] == 1 for v in res["checks"].values())
    finally:
        sh(f"git -C /repo worktree remove --force {wt}")
        shutil.rmtree(wt, ignore_errors=True)
    print(json.dumps(res))


if __name__ == "__main__":
    main()
