#!/usr/bin/env python3
"""Runs the pinned suite (guard off: there are no hooks) and compares with BASELINE.json's stable_pass list."""
import json, subprocess, sys, xml.etree.ElementTree as ET, tempfile, os
b = json.load(open("/root/.vp/BASELINE.json"))
fd, path = tempfile.mkstemp(suffix=".xml"); os.close(fd)
cmd = f"cd /repo && /venv/bin/python -m pytest -ra -q -p no:cacheprovider --timeout=900 --continue-on-collection-errors --junitxml={path}"
extra = " ".join(sys.argv[1:])
subprocess.run(cmd + " " + extra + " >/dev/null 2>&1", shell=True)
root = ET.parse(path).getroot()
passed = set()
other = {}
for tc in root.iter("testcase"):
    name = f"{tc.get('classname')}::{tc.get('name')}"
    bad = [c.tag for c in tc if c.tag in ("failure", "error", "skipped")]
    if bad:
        other[name] = bad[0]
    else:
        passed.add(name)
os.unlink(path)
want = set(b["stable_pass"])
missing = sorted(want - passed)
print(f"passed={len(passed)} baseline={len(want)} missing_from_pass={len(missing)}")
for m in missing[:20]:
    print("  MISSING:", m, other.get(m))
sys.exit(1 if missing else 0)
