#!/bin/sh
# Runs the repository's pinned test suite (guard off - there are no hooks) and prints the summary line.
cd /repo && exec /venv/bin/python -m pytest -q -p no:cacheprovider --timeout=900 --continue-on-collection-errors -n "${N:-8}" "$@" 2>&1 | tail -15
